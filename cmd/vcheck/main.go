// vcheck is the driver behind ./check.sh: it rebuilds the property test binary
// from /repo's current working tree (through the replace directive in go.mod,
// with -tags verif), runs the shards of one property in parallel, merges their
// reports, writes evidence/<id>.json and maps the outcome to the exit code
// (0 held, 1 violation with a VIOLATION line, 2 inconclusive / infrastructure).
package main

import (
	"bytes"
	"context"
	"encoding/json"
	"fmt"
	"os"
	"os/exec"
	"path/filepath"
	"regexp"
	"sort"
	"strconv"
	"strings"
	"sync"
	"time"

	"verif/internal/harness"
)

type propCfg struct {
	race          bool
	quickShards   int
	thoroughShard int
	quickTimeout  time.Duration
	thorTimeout   time.Duration
}

func cfg(id string) propCfg {
	c := propCfg{quickShards: 8, thoroughShard: 16, quickTimeout: 8 * time.Minute, thorTimeout: 60 * time.Minute}
	switch id {
	case "C18":
		c.race = true
		c.quickShards = 8
	case "C19", "C20", "C15":
		c.quickShards = 8
	}
	return c
}

func root() string {
	if r := os.Getenv("VERIF_ROOT"); r != "" {
		return r
	}
	return "/verif"
}

func goEnv() []string {
	env := os.Environ()
	env = append(env, "GOFLAGS=-mod=mod", "GOPROXY=off", "GOSUMDB=off", "GOTOOLCHAIN=local", "CGO_ENABLED="+cgo())
	return env
}

var wantRace bool

func cgo() string {
	if wantRace {
		return "1"
	}
	return "0"
}

func fail2(format string, args ...any) {
	fmt.Fprintf(os.Stderr, "INCONCLUSIVE: "+format+"\n", args...)
	os.Exit(2)
}

func build(race bool) string {
	wantRace = race
	dir := filepath.Join(root(), ".build")
	_ = os.MkdirAll(dir, 0o755)
	// node registry from the current ast/ast.go
	{
		cmd := exec.Command("go", "run", "./cmd/genregistry")
		cmd.Dir = root()
		cmd.Env = goEnv()
		if out, err := cmd.CombinedOutput(); err != nil {
			fail2("genregistry failed: %v\n%s", err, out)
		}
	}
	out := filepath.Join(dir, "props.test")
	args := []string{"test", "-c", "-tags", "verif", "-o", out}
	if race {
		out = filepath.Join(dir, "props.race.test")
		args = []string{"test", "-c", "-race", "-tags", "verif", "-o", out}
	}
	if repo := os.Getenv("VERIF_REPO"); repo != "" && repo != "/repo" {
		// scratch copy of memefish (seeded-mutant runs): temporary modfile with another replace
		mod, err := os.ReadFile(filepath.Join(root(), "go.mod"))
		if err != nil {
			fail2("read go.mod: %v", err)
		}
		alt := strings.Replace(string(mod), "=> /repo", "=> "+repo, 1)
		tag := strconv.FormatUint(harness.Hash(repo), 16)
		mf := filepath.Join(dir, "alt-"+tag+".mod")
		if err := os.WriteFile(mf, []byte(alt), 0o644); err != nil {
			fail2("write modfile: %v", err)
		}
		sum, _ := os.ReadFile(filepath.Join(root(), "go.sum"))
		_ = os.WriteFile(filepath.Join(dir, "alt-"+tag+".sum"), sum, 0o644)
		out = filepath.Join(dir, "props-"+tag+".test")
		args = append(args[:len(args)-1], out, "-modfile", mf)
	}
	args = append(args, "./props")
	cmd := exec.Command("go", args...)
	cmd.Dir = root()
	cmd.Env = goEnv()
	var buf bytes.Buffer
	cmd.Stdout, cmd.Stderr = &buf, &buf
	if err := cmd.Run(); err != nil {
		fail2("build failed: %v\n%s", err, buf.String())
	}
	return out
}

type shardResult struct {
	idx     int
	rep     *harness.Report
	out     string
	err     error
	timeout bool
	// extra violation recovered from a pre-committed case file (data race / confirmed hang)
	extra        *harness.Violation
	inconclusive string
}

func runShard(bin, id, tier string, seed int64, i, k int, timeout time.Duration, repDir string) shardResult {
	repPath := filepath.Join(repDir, fmt.Sprintf("%s-%d.json", id, i))
	_ = os.Remove(repPath)
	curPath := filepath.Join(repDir, fmt.Sprintf("%s-%d.cur.json", id, i))
	hangPath := filepath.Join(repDir, fmt.Sprintf("%s-%d.hang.json", id, i))
	_ = os.Remove(curPath)
	_ = os.Remove(hangPath)
	ctx, cancel := context.WithTimeout(context.Background(), timeout+30*time.Second)
	defer cancel()
	cmd := exec.CommandContext(ctx, bin, "-test.run", "^TestProp$", "-test.timeout", timeout.String(), "-test.count", "1")
	cmd.Dir = filepath.Join(root(), "props")
	cmd.Env = append(os.Environ(),
		"VERIF_PROP="+id, "VERIF_TIER="+tier, "VERIF_SEED="+strconv.FormatInt(seed, 10),
		fmt.Sprintf("VERIF_SHARD=%d/%d", i, k), "VERIF_REPORT="+repPath, "VERIF_ROOT="+root(),
		"VERIF_CURFILE="+curPath, "VERIF_HANGFILE="+hangPath,
		"GORACE=halt_on_error=1 exitcode=66")
	var buf bytes.Buffer
	cmd.Stdout, cmd.Stderr = &buf, &buf
	err := cmd.Run()
	res := shardResult{idx: i, out: buf.String(), err: err}
	if ctx.Err() != nil {
		res.timeout = true
	}
	if b, e := os.ReadFile(repPath); e == nil {
		var r harness.Report
		if json.Unmarshal(b, &r) == nil {
			res.rep = &r
		}
	}
	_ = os.Remove(repPath)
	keep := func(src, sig string) *harness.Violation {
		cs, err := harness.LoadCase(src)
		if err != nil {
			return nil
		}
		dir := filepath.Join(root(), "replays")
		_ = os.MkdirAll(dir, 0o755)
		dst := filepath.Join(dir, fmt.Sprintf("%s-%016x.json", id, harness.Hash(cs.Input, sig)))
		b, _ := os.ReadFile(src)
		_ = os.WriteFile(dst, b, 0o644)
		return &harness.Violation{Case: cs, Replay: dst}
	}
	if strings.Contains(res.out, "WARNING: DATA RACE") {
		if v := keep(curPath, "race"); v != nil {
			v.Case.Message += "\n" + tail(res.out, 2500)
			res.extra = v
		} else {
			res.inconclusive = "data race reported but no pre-committed case: " + tail(res.out, 2000)
		}
	} else if _, err := os.Stat(hangPath); err == nil {
		// the watchdog fired: re-run that case alone with a 120 s limit; only a confirmed non-return is a violation
		ctx2, cancel2 := context.WithTimeout(context.Background(), 120*time.Second)
		cmd2 := exec.CommandContext(ctx2, bin, "-test.run", "^TestProp$", "-test.timeout", "10m")
		cmd2.Dir = filepath.Join(root(), "props")
		cmd2.Env = append(os.Environ(), "VERIF_PROP="+id, "VERIF_REPLAY="+hangPath, "VERIF_ROOT="+root(), "VERIF_WATCHDOG=off")
		out2, _ := cmd2.CombinedOutput()
		timedOut := ctx2.Err() != nil
		cancel2()
		if timedOut && id == "C03" {
			if v := keep(hangPath, "hang"); v != nil {
				v.Case.Sigs = []string{"C03 non-termination"}
				v.Case.Message = "the call did not return within 120 s when re-run alone"
				res.extra = v
			}
		} else {
			res.inconclusive = fmt.Sprintf("watchdog fired in shard %d (isolated re-run: timedOut=%v): %s", i, timedOut, tail(string(out2), 500))
		}
	}
	_ = os.Remove(curPath)
	_ = os.Remove(hangPath)
	return res
}

func main() {
	if len(os.Args) < 3 {
		fmt.Fprintln(os.Stderr, "usage: vcheck <ID> <quick|thorough> | vcheck <ID> --replay <file>")
		os.Exit(2)
	}
	id := os.Args[1]
	c := cfg(id)
	if os.Args[2] == "--replay" {
		if len(os.Args) < 4 {
			fail2("--replay needs a path")
		}
		bin := build(c.race)
		cmd := exec.Command(bin, "-test.run", "^TestProp$", "-test.timeout", "10m", "-test.v")
		cmd.Dir = filepath.Join(root(), "props")
		abs, _ := filepath.Abs(os.Args[3])
		cmd.Env = append(os.Environ(), "VERIF_PROP="+id, "VERIF_REPLAY="+abs, "VERIF_ROOT="+root())
		out, err := cmd.CombinedOutput()
		fmt.Print(string(out))
		if strings.Contains(string(out), "REPLAY-RESULT violation") {
			fmt.Printf("VIOLATION property=%s replay=%s\n", id, abs)
			os.Exit(1)
		}
		if err != nil || !strings.Contains(string(out), "REPLAY-RESULT ok") {
			fail2("replay did not complete: %v", err)
		}
		os.Exit(0)
	}
	tier := os.Args[2]
	if tier != "quick" && tier != "thorough" {
		fail2("tier must be quick or thorough")
	}
	seed := int64(1)
	if s := os.Getenv("VERIF_SEED"); s != "" {
		if n, err := strconv.ParseInt(s, 10, 64); err == nil {
			seed = n
		}
	}
	if seed == 0 {
		seed = 1 << 20 // rapid treats 0 as random; remap
	}
	start := time.Now()
	bin := build(c.race)
	k, timeout := c.quickShards, c.quickTimeout
	if tier == "thorough" {
		k, timeout = c.thoroughShard, c.thorTimeout
	}
	if s := os.Getenv("VERIF_SHARDS"); s != "" {
		if n, err := strconv.Atoi(s); err == nil && n > 0 {
			k = n
		}
	}
	// one report directory per invocation, so that concurrent runs (seeded-change runs against scratch copies) do not collide
	repDir := filepath.Join(root(), ".build", "reports", fmt.Sprintf("%s-%d", id, os.Getpid()))
	_ = os.MkdirAll(repDir, 0o755)
	// (removed after the merge, unless something was inconclusive: the shard logs are then worth keeping)
	_ = os.RemoveAll(filepath.Join(root(), "props", "testdata", "rapid"))

	results := make([]shardResult, k)
	var wg sync.WaitGroup
	for i := 0; i < k; i++ {
		wg.Add(1)
		go func(i int) {
			defer wg.Done()
			results[i] = runShard(bin, id, tier, seed, i, k, timeout, repDir)
		}(i)
	}
	wg.Wait()

	// ---- native coverage-guided fuzz leg (thorough tier only) ----
	var fuzzExecs int64
	var fuzzViolations []harness.Violation
	var fuzzInfra []string
	if tier == "thorough" && fuzzable[id] && os.Getenv("VERIF_NOFUZZ") == "" {
		fuzzExecs, fuzzViolations, fuzzInfra = runFuzz(id, fuzzTime(id))
	}

	// ---- merge ----
	var (
		evals      int64
		classes    = map[string]int64{}
		legs       = map[string]int64{}
		hashes     = map[uint64]struct{}{}
		dropped    int64
		samples    []any
		excluded   = map[string]int64{}
		confirmed  []string
		violations []harness.Violation
		infra      []string
		exhaustive = map[string]bool{}
		extra      = map[string]any{}
	)
	for _, r := range results {
		if r.extra != nil {
			violations = append(violations, *r.extra)
		}
		if r.inconclusive != "" {
			infra = append(infra, r.inconclusive)
		}
		if os.Getenv("VERIF_COLLECT") != "" {
			fmt.Printf("---- shard %d ----\n%s", r.idx, r.out)
		}
		if r.rep == nil && r.extra != nil {
			continue
		}
		if r.rep == nil {
			infra = append(infra, fmt.Sprintf("shard %d wrote no report (err=%v timeout=%v)\n%s", r.idx, r.err, r.timeout, tail(r.out, 3000)))
			continue
		}
		if r.err != nil && len(r.rep.Violations) == 0 {
			infra = append(infra, fmt.Sprintf("shard %d exited with %v (timeout=%v)\n%s", r.idx, r.err, r.timeout, tail(r.out, 3000)))
		}
		evals += r.rep.Evaluations
		dropped += r.rep.HashesDropped
		for k, v := range r.rep.Classes {
			classes[k] += v
		}
		for k, v := range r.rep.Legs {
			legs[k] += v
		}
		for _, h := range r.rep.Hashes {
			hashes[h] = struct{}{}
		}
		for k, v := range r.rep.ExcludedKnown {
			excluded[k] += v
		}
		for k, v := range r.rep.Exhaustive {
			if old, ok := exhaustive[k]; ok {
				exhaustive[k] = old && v
			} else {
				exhaustive[k] = v
			}
		}
		for k, v := range r.rep.Extra {
			mergeExtra(extra, k, v)
		}
		confirmed = append(confirmed, r.rep.KnownConfirmed...)
		violations = append(violations, r.rep.Violations...)
		infra = append(infra, r.rep.Infra...)
		if len(samples) < 40 {
			for _, s := range r.rep.Samples {
				if len(samples) < 40 {
					samples = append(samples, s)
				}
			}
		}
	}
	violations = append(violations, fuzzViolations...)
	infra = append(infra, fuzzInfra...)
	// de-duplicate violations by first signature
	seenSig := map[string]bool{}
	var uniq []harness.Violation
	for _, v := range violations {
		key := ""
		if len(v.Case.Sigs) > 0 {
			key = v.Case.Sigs[0]
		}
		if seenSig[key] {
			continue
		}
		seenSig[key] = true
		uniq = append(uniq, v)
	}
	violations = uniq

	rule, assumptions := "see DESIGN.md section 4, "+id, []string(nil)
	for _, r := range results {
		if r.rep != nil && r.rep.Rule != "" {
			rule, assumptions = r.rep.Rule, r.rep.Assumptions
			break
		}
	}
	allExh := len(exhaustive) > 0
	for _, v := range exhaustive {
		allExh = allExh && v
	}
	cov := map[string]any{
		"evaluations":              evals,
		"distinct_nontrivial":      len(hashes),
		"rule":                     rule,
		"samples":                  samples,
		"classes":                  classes,
		"legs":                     legs,
		"excluded_known":           excluded,
		"known_findings_confirmed": confirmed,
		"exhaustive_domains":       exhaustive,
		"hashes_dropped_over_cap":  dropped,
		"shards":                   k,
	}
	for k, v := range extra {
		cov[k] = v
	}
	if tier == "thorough" && fuzzable[id] {
		cov["fuzz_execs"] = fuzzExecs
	}
	if assumptions == nil {
		assumptions = []string{}
	}
	ev := map[string]any{
		"property_id": id,
		"tier":        tier,
		"seed":        seed,
		"level":       "exploration",
		"coverage":    cov,
		"assumptions": assumptions,
		"wall_s":      time.Since(start).Seconds(),
		"violations":  len(violations),
	}
	if len(samples) == 0 {
		cov["samples"] = []any{"(no sample recorded)"}
	}
	_ = os.MkdirAll(filepath.Join(root(), "evidence"), 0o755)
	b, _ := json.MarshalIndent(ev, "", " ")
	if err := os.WriteFile(filepath.Join(root(), "evidence", id+".json"), append(b, '\n'), 0o644); err != nil {
		infra = append(infra, "cannot write evidence: "+err.Error())
	}

	if len(infra) == 0 {
		_ = os.RemoveAll(repDir)
	}
	sort.Strings(confirmed)
	for _, kf := range confirmed {
		fmt.Printf("KNOWN-FINDING: %s\n", kf)
	}
	fmt.Printf("%s %s seed=%d shards=%d evaluations=%d distinct_nontrivial=%d excluded_known=%d wall=%.1fs\n",
		id, tier, seed, k, evals, len(hashes), sum(excluded), time.Since(start).Seconds())
	if len(violations) > 0 {
		for _, v := range violations {
			fmt.Printf("VIOLATION property=%s replay=%s\n", id, v.Replay)
			fmt.Printf("  signature: %s\n  entry=%s input=%s\n  %s\n", strings.Join(v.Case.Sigs, " ; "), v.Case.Entry, v.Case.InputQ, v.Case.Message)
		}
		os.Exit(1)
	}
	if len(infra) > 0 {
		for _, s := range infra {
			fmt.Fprintln(os.Stderr, "INCONCLUSIVE:", s)
		}
		os.Exit(2)
	}
	if len(hashes) < 2 || evals < 1 {
		fmt.Fprintln(os.Stderr, "INCONCLUSIVE: generator unhealthy (no non-trivial cases)")
		os.Exit(2)
	}
	os.Exit(0)
}

var fuzzable = map[string]bool{"C01": true, "C03": true, "C04": true, "C05": true, "C06": true, "C09": true, "C10": true, "C11": true, "C12": true, "C13": true, "C14": true, "C15": true, "C20": true}

func fuzzTime(id string) time.Duration {
	if s := os.Getenv("VERIF_FUZZTIME"); s != "" {
		if d, err := time.ParseDuration(s); err == nil {
			return d
		}
	}
	return 60 * time.Second
}

var execsRe = regexp.MustCompile(`execs: (\d+)`)
var fuzzVioRe = regexp.MustCompile(`FUZZ-VIOLATION property=(\S+) replay=(\S+)`)

// runFuzz runs the native fuzz target of the props package for one property.
func runFuzz(id string, d time.Duration) (execs int64, vs []harness.Violation, infra []string) {
	fuzzDir := filepath.Join(root(), "props", "testdata", "fuzz")
	_ = os.RemoveAll(fuzzDir)
	defer os.RemoveAll(fuzzDir)
	cache := filepath.Join(root(), ".build", "fuzzcache", id)
	_ = os.RemoveAll(cache)
	defer os.RemoveAll(cache)
	ctx, cancel := context.WithTimeout(context.Background(), d+5*time.Minute)
	defer cancel()
	args := []string{"test", "-tags", "verif", "-run", "^$", "-fuzz", "^FuzzOracle$", "-fuzztime", d.String(), "./props", "-test.fuzzcachedir=" + cache} // the package must come before the -test.* flag: go test stops parsing its own arguments there
	cmd := exec.CommandContext(ctx, "go", args...)
	cmd.Dir = root()
	cmd.Env = append(goEnv(), "VERIF_PROP="+id, "VERIF_ROOT="+root(), "VERIF_TIER=thorough")
	out, err := cmd.CombinedOutput()
	text := string(out)
	for _, m := range execsRe.FindAllStringSubmatch(text, -1) {
		if n, e := strconv.ParseInt(m[1], 10, 64); e == nil && n > execs {
			execs = n
		}
	}
	seen := map[string]bool{}
	for _, m := range fuzzVioRe.FindAllStringSubmatch(text, -1) {
		if seen[m[2]] {
			continue
		}
		seen[m[2]] = true
		if cs, e := harness.LoadCase(m[2]); e == nil {
			vs = append(vs, harness.Violation{Case: cs, Replay: m[2]})
		}
	}
	if err != nil && len(vs) == 0 {
		infra = append(infra, fmt.Sprintf("native fuzz leg failed without an oracle violation: %v\n%s", err, tail(text, 2000)))
	}
	return
}

func sum(m map[string]int64) int64 {
	var s int64
	for _, v := range m {
		s += v
	}
	return s
}

func tail(s string, n int) string {
	if len(s) > n {
		return "..." + s[len(s)-n:]
	}
	return s
}

// mergeExtra merges per-shard extra values: numbers are summed, string lists
// are united, anything else keeps the first value.
func mergeExtra(dst map[string]any, k string, v any) {
	old, ok := dst[k]
	if !ok {
		dst[k] = v
		return
	}
	switch o := old.(type) {
	case float64:
		if n, ok := v.(float64); ok {
			dst[k] = o + n
		}
	case []any:
		if n, ok := v.([]any); ok {
			seen := map[string]bool{}
			var out []any
			for _, x := range append(o, n...) {
				key := fmt.Sprint(x)
				if !seen[key] {
					seen[key] = true
					out = append(out, x)
				}
			}
			sort.Slice(out, func(i, j int) bool { return fmt.Sprint(out[i]) < fmt.Sprint(out[j]) })
			dst[k] = out
		}
	case map[string]any:
		if n, ok := v.(map[string]any); ok {
			for kk, vv := range n {
				mergeExtra(o, kk, vv)
			}
		}
	}
}
