#!/bin/sh
# setup_cmd: build the framework from files on disk only (warms the Go build cache).
cd "$(dirname "$0")" || exit 1
export GOFLAGS=-mod=mod GOPROXY=off GOSUMDB=off GOTOOLCHAIN=local
mkdir -p .build evidence
go build -o .build/vcheck ./cmd/vcheck || exit 1
go test -c -tags verif -o .build/props.test ./props || exit 1
CGO_ENABLED=1 go test -c -race -tags verif -o .build/props.race.test ./props || echo "race build unavailable (C18 will report inconclusive)" >&2
exit 0
