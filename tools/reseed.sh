#!/bin/bash
# tools/reseed.sh [dir ...]   (default: every /verif/seeded/*/)
# Regression test of the machinery itself: for every kept seeded change, applies seeded/<dir>/patch.diff to a
# scratch worktree of /repo's HEAD (never to /repo), runs the property's own quick check against it through
# VERIF_REPO, and expects exit 1 with a VIOLATION line. Prints one line per change and a summary; exit 0 iff all caught.
# The worktree lives under /tmp and is removed at the end. Evidence files written during these runs describe the
# patched tree: re-run the checks on /repo afterwards (tools/allquick.sh) before committing evidence.
set -u
export GOFLAGS=-mod=mod GOPROXY=off GOSUMDB=off GOTOOLCHAIN=local
cd "$(dirname "$0")/.." || exit 2
LANE=${RESEED_LANE:-0}
WT=/tmp/mf-reseed-$LANE
git -C /repo worktree remove --force $WT 2>/dev/null
git -C /repo worktree add -q --detach $WT HEAD || exit 2
dirs=("$@"); [ ${#dirs[@]} -eq 0 ] && dirs=(seeded/*/)
miss=0; n=0
for d in "${dirs[@]}"; do
  d=${d%/}; id=$(basename $d); p=${id%%-*}
  git -C $WT checkout -q -- . ; git -C $WT clean -fdq .
  if ! git -C $WT apply "$PWD/$d/patch.diff" 2>/dev/null; then echo "RESEED $id patch-does-not-apply"; miss=$((miss+1)); continue; fi
  VERIF_REPO=$WT ./check.sh $p quick > /tmp/reseed-$id.log 2>&1; rc=$?
  sig=$(grep -m1 "signature:" /tmp/reseed-$id.log | cut -c1-150)
  n=$((n+1))
  if [ $rc -eq 1 ] && grep -q "^VIOLATION property=$p " /tmp/reseed-$id.log; then echo "RESEED $id CAUGHT $sig"; rm -f /tmp/reseed-$id.log
  else echo "RESEED $id MISSED rc=$rc (log /tmp/reseed-$id.log)"; miss=$((miss+1)); fi
done
git -C /repo worktree remove --force $WT; git -C /repo worktree prune
echo "RESEED-SUMMARY lane=$LANE run=$n missed=$miss"
[ $miss -eq 0 ]
