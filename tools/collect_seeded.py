#!/usr/bin/env python3
"""Materialises /verif/seeded/<id>-<k>/ from the sub-agent outputs (/tmp/mf-seed-out) and the RESULT lines of tools/seedtest.sh."""
import json, os, re, shutil, subprocess, sys
results = {}
for path in sys.argv[1:]:
    for line in open(path):
        m = re.match(r'RESULT (C\d\d)/(\d)(?: round=(\d+))? clean_demo_rc=(\d+) patched_demo_rc=(\d+) suite_rc=(\d+) checks:(.*)', line.strip())
        if not m:
            continue
        pid, k, rnd, clean, patched, suite, checks = m.groups()
        rnd = rnd or "1"
        k = k if rnd == "1" else "r%s-%s" % (rnd, k)
        cm = {}
        for c in re.finditer(r'(C\d\d)=rc(\d)(?:\[\s*signature: (.*?)\])?', checks):
            cm[c.group(1)] = {"exit": int(c.group(2)), "signature": c.group(3) or ""}
        results.setdefault((pid, k), {"clean": int(clean), "patched": int(patched), "suite": int(suite), "checks": {}})
        r = results[(pid, k)]
        r.update({"clean": int(clean), "patched": int(patched), "suite": int(suite)})
        r["checks"].update(cm)
base = subprocess.run(["git", "-C", "/repo", "rev-parse", "--short", "HEAD"], capture_output=True, text=True).stdout.strip()
rows = []
for (pid, k), r in sorted(results.items()):
    rnd, kk = ("1", k) if not k.startswith("r") else (k[1:].split("-")[0], k.split("-")[1])
    src = f"/tmp/mf-seed-out/{pid}" if rnd == "1" else f"/tmp/mf-seed-out{rnd}/{pid}"
    ok = r["clean"] == 0 and r["patched"] != 0 and r["suite"] == 0
    if not ok:
        rows.append((pid, k, "REJECTED (not confirmed)", r))
        continue
    dst = f"/verif/seeded/{pid}-{k}"
    os.makedirs(dst, exist_ok=True)
    shutil.copy(f"{src}/patch{kk}.diff", f"{dst}/patch.diff")
    shutil.copy(f"{src}/demo{kk}_test.go", f"{dst}/demo_test.go")
    try:
        meta = json.load(open(f"{src}/meta{kk}.json"))
    except Exception as e:
        meta = {"property": pid, "summary": "(meta file unreadable: %s)" % e}
    meta["property"] = pid
    meta["validated"] = {
        "base_commit": base,
        "what_i_ran": "tools/seedtest.sh %s %s: demo on clean worktree (pass), git apply, demo (fail), go build ./... && go test ./... (pass), ./check.sh <id> quick with VERIF_REPO pointing at the patched worktree" % (pid, k),
        "demo_passes_without_change": True, "demo_fails_with_change": True, "suite_passes_with_change": True,
        "checks": r["checks"],
    }
    json.dump(meta, open(f"{dst}/meta.json", "w"), indent=1)
    rows.append((pid, k, meta.get("summary", "")[:160], r))
for pid, k, summ, r in rows:
    caught = ", ".join(f"{c}:{'CAUGHT' if v['exit']==1 else ('inconclusive' if v['exit']==2 else 'missed')}" for c, v in sorted(r["checks"].items()))
    print(f"{pid}/{k} | {caught} | {summ}")
