#!/bin/bash
# tools/seedtest.sh <Cxx> <k> [check ids...]
# Validates seeded change k of property Cxx (files from /tmp/mf-seed-out/Cxx) in the scratch worktree /tmp/mf-seed-Cxx:
#   1. clean worktree: demo passes; 2. patch applied: build + full suite pass, demo fails;
#   3. runs ./check.sh <id> quick for the given check ids (default: Cxx) against the patched worktree (VERIF_REPO);
#   4. reverts the worktree.
# Prints one RESULT line. Nothing in /repo is touched.
set -u
P=$1; K=$2; shift 2
CHECKS=${*:-$P}
R=${SEED_ROUND:-1}
if [ "$R" = "1" ]; then WT=/tmp/mf-seed-$P; OUT=/tmp/mf-seed-out/$P; else WT=/tmp/mf-seed$R-$P; OUT=/tmp/mf-seed-out$R/$P; fi
export GOFLAGS=-mod=mod GOPROXY=off GOSUMDB=off GOTOOLCHAIN=local
cd $WT || exit 2
git checkout -q -- . ; git clean -fdq .
[ -f $OUT/patch$K.diff ] || { echo "RESULT $P/$K missing-patch"; exit 0; }
cp $OUT/demo${K}_test.go $WT/zz_demo_test.go
clean_demo=$(go test -count=1 -run 'TestSeed|Test' ./zz_demo_test.go 2>&1 | tail -1)
# run only the demo's test functions
names=$(grep -o '^func Test[A-Za-z0-9_]*' zz_demo_test.go | sed 's/func //' | paste -sd'|')
go test -count=1 -run "^($names)\$" . > /tmp/seed-$P-$K-clean.log 2>&1; clean_rc=$?
git apply $OUT/patch$K.diff || { echo "RESULT $P/$K patch-does-not-apply"; git checkout -q -- .; rm -f zz_demo_test.go; exit 0; }
RACE=""; [ "$P" = "C18" ] && RACE="-race"; CGO_ENABLED=1 go test $RACE -count=1 -run "^($names)\$" . > /tmp/seed-$P-$K-demo.log 2>&1; demo_rc=$?
rm -f zz_demo_test.go
go build ./... > /tmp/seed-$P-$K-suite.log 2>&1 && go test -count=1 ./... >> /tmp/seed-$P-$K-suite.log 2>&1; suite_rc=$?
caught=""
for c in $CHECKS; do
  (cd /verif && VERIF_REPO=$WT ./check.sh $c quick > /tmp/seed-$P-$K-$c.log 2>&1); rc=$?
  sig=$(grep -m1 "signature:" /tmp/seed-$P-$K-$c.log | cut -c1-140)
  caught="$caught $c=rc$rc"
  [ $rc -eq 1 ] && caught="$caught[$sig]"
done
git checkout -q -- . ; git clean -fdq .
echo "RESULT $P/$K round=$R clean_demo_rc=$clean_rc patched_demo_rc=$demo_rc suite_rc=$suite_rc checks:$caught"
