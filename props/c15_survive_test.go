package props

import (
	"fmt"
	"strings"

	"github.com/cloudspannerecosystem/memefish/ast"
	"pgregory.net/rapid"

	"verif/internal/astx"
	"verif/internal/gen"
	"verif/internal/harness"
	"verif/internal/reflex"
)

// C15, last clause: "string, bytes and identifier values survive SQL()".
//
// A text with drawn values in many syntactic places is parsed; every identifier / string / bytes value stored in the tree must
// be found again, in order and with the same kind, among the tokens of SQL() as decoded by the reference lexer. The check is
// lexical on purpose: whether SQL() parses back to the same tree is C01; here only "the value the node holds is the value the
// printed token denotes" is decided, so a pseudo-keyword-like name printed bare (C01's known finding) is not reported again.

type heldValue struct {
	kind  reflex.Kind
	value string
	owner string
}

func heldValues(root ast.Node) []heldValue {
	var out []heldValue
	for _, a := range astx.All(root) {
		owner := "<root>"
		if a.Parent != nil {
			owner = astx.TypeName(a.Parent)
		}
		switch x := a.Node.(type) {
		case *ast.Ident:
			out = append(out, heldValue{reflex.Ident, x.Name, owner})
		case *ast.StringLiteral:
			out = append(out, heldValue{reflex.String, x.Value, owner})
		case *ast.BytesLiteral:
			out = append(out, heldValue{reflex.Bytes, string(x.Value), owner})
		}
	}
	return out
}

func c15Survive(cs *harness.Case, add func(sig, msg string)) {
	e := entryByName[strings.TrimPrefix(cs.Entry, "survive:")]
	if e == nil {
		return
	}
	o := e.Guarded(cs.Input)
	if o.Panicked || o.Err != nil || len(o.Nodes) == 0 || isNilNode(o.Nodes[0]) {
		return // not accepted: outside the clause
	}
	root := o.Nodes[0]
	held := heldValues(root)
	var sql string
	if p := callGuard(func() { sql = root.SQL() }); p != nil {
		return // C04
	}
	toks, err := reflex.Lex(sql)
	if err != nil {
		add("C15 survive: SQL()-does-not-lex "+astx.TypeName(root), fmt.Sprintf("SQL() = %s: %v", q(trunc(sql, 200)), err))
		return
	}
	j := 0
	for _, h := range held {
		found := false
		for ; j < len(toks); j++ {
			t := toks[j]
			if t.Kind == h.kind && t.Value == h.value {
				found = true
				j++
				break
			}
			// an identifier printed after a dot may come back as a keyword-shaped identifier only in dot mode; the reference lexer models that
		}
		if !found {
			kind := map[reflex.Kind]string{reflex.Ident: "identifier", reflex.String: "string", reflex.Bytes: "bytes"}[h.kind]
			add(fmt.Sprintf("C15 survive: %s value lost in %s (%s)", kind, h.owner, valueClass(h.value)),
				fmt.Sprintf("the %s value %s held by a %s is not among the tokens of SQL() = %s (in order)", kind, q(trunc(h.value, 60)), h.owner, q(trunc(sql, 240))))
			return
		}
	}
}

// surviveTemplates: %S string literal, %B bytes literal, %I identifier.
var surviveTemplates = []struct{ entry, text string }{
	{"ParseExpr", "%S"}, {"ParseExpr", "%B"}, {"ParseExpr", "JSON %S"}, {"ParseExpr", "DATE %S"}, {"ParseExpr", "TIMESTAMP %S"}, {"ParseExpr", "NUMERIC %S"},
	{"ParseExpr", "INTERVAL %S DAY"}, {"ParseExpr", "%S || %S"}, {"ParseExpr", "x LIKE %S"}, {"ParseExpr", "x IN (%S, %B)"}, {"ParseExpr", "IF(%I, %S, %B)"},
	{"ParseExpr", "%I"}, {"ParseExpr", "%I.%I"}, {"ParseExpr", "%I.%I.%I"}, {"ParseExpr", "(%I).%I"}, {"ParseExpr", "f(x).%I"}, {"ParseExpr", "a[0].%I"},
	{"ParseExpr", "@p.%I"}, {"ParseExpr", "%S.%I"}, {"ParseExpr", "CASE WHEN a THEN b END.%I"}, {"ParseExpr", "CASE x WHEN a THEN b ELSE c END.%I.%I"},
	{"ParseExpr", "NULL.%I"}, {"ParseExpr", "TRUE.%I"}, {"ParseExpr", "1 .%I"}, {"ParseExpr", "1.5.%I"}, {"ParseExpr", "0x1F .%I"}, {"ParseExpr", "(1).%I"}, {"ParseExpr", "[1][OFFSET(0)].%I"},
	{"ParseExpr", "(SELECT 1).%I"}, {"ParseExpr", "ARRAY(SELECT 1)[0].%I.%I"}, {"ParseExpr", "CAST(x AS STRING).%I"}, {"ParseExpr", "EXISTS(SELECT 1).%I"}, {"ParseExpr", "DATE %S.%I"},
	{"ParseExpr", "STRUCT(1 AS %I)"}, {"ParseExpr", "STRUCT<%I INT64>(1)"}, {"ParseExpr", "f(%I => %S)"}, {"ParseExpr", "%I(%S)"}, {"ParseExpr", "%I.%I(%B)"},
	{"ParseExpr", "CAST(%S AS %I.%I)"}, {"ParseExpr", "NEW %I.%I(%S AS %I)"}, {"ParseExpr", "NEW %I {%I: %S, %I {%I: %B}}"}, {"ParseExpr", "EXTRACT(DAY FROM %I)"},
	{"ParseExpr", "%I[OFFSET(%I)]"}, {"ParseExpr", "ARRAY<%I.%I>[]"}, {"ParseExpr", "REPLACE_FIELDS(%I, %S AS %I.%I)"}, {"ParseExpr", "WITH(%I AS %S, %I)"},
	{"ParseExpr", "(%I, %I) -> %I"}, {"ParseExpr", "f(%I -> %S)"}, {"ParseExpr", "%I IS NULL"}, {"ParseExpr", "- %I.%I"}, {"ParseExpr", "%I BETWEEN %S AND %B"},
	{"ParseQuery", "SELECT %S AS %I"}, {"ParseQuery", "SELECT %I.* FROM %I"}, {"ParseQuery", "SELECT * FROM %I AS %I"}, {"ParseQuery", "SELECT * FROM %I.%I@{%I=%S}"},
	{"ParseQuery", "@{%I=%S} SELECT 1"}, {"ParseQuery", "SELECT * FROM %I TABLESAMPLE BERNOULLI (1 PERCENT)"}, {"ParseQuery", "WITH %I AS (SELECT %S) SELECT * FROM %I"},
	{"ParseQuery", "SELECT * FROM UNNEST([%S]) AS %I WITH OFFSET AS %I"}, {"ParseQuery", "SELECT * FROM %I JOIN %I USING (%I, %I)"}, {"ParseQuery", "SELECT * EXCEPT (%I) FROM t"},
	{"ParseQuery", "SELECT * REPLACE (%S AS %I) FROM t"}, {"ParseQuery", "SELECT 1 FROM t ORDER BY %I COLLATE %S"}, {"ParseQuery", "SELECT %I FROM t GROUP BY %I HAVING %I = %S"},
	{"ParseQuery", "SELECT * FROM %I(%S)"}, {"ParseQuery", "FROM %I |> SELECT %S AS %I"}, {"ParseQuery", "SELECT AS STRUCT %S %I"}, {"ParseQuery", "SELECT %I.%I %I FROM %I %I"},
	{"ParseQuery", "SELECT * FROM %I.%I.%I"}, {"ParseQuery", "SELECT 1 FROM %I@{FORCE_INDEX=%I}"}, {"ParseQuery", "SELECT * FROM t WHERE %I = %S LIMIT 1"},
	{"ParseDDL", "CREATE TABLE %I (%I INT64, %I STRING(MAX) OPTIONS (%I = %S)) PRIMARY KEY (%I)"}, {"ParseDDL", "ALTER TABLE %I ADD COLUMN %I BYTES(10) DEFAULT (%B)"},
	{"ParseDDL", "CREATE INDEX %I ON %I (%I) STORING (%I)"}, {"ParseDDL", "DROP TABLE %I"}, {"ParseDDL", "CREATE VIEW %I SQL SECURITY INVOKER AS SELECT %S AS %I"},
	{"ParseDDL", "CREATE ROLE %I"}, {"ParseDDL", "GRANT SELECT(%I) ON TABLE %I TO ROLE %I"}, {"ParseDDL", "CREATE SEQUENCE %I OPTIONS (sequence_kind = %S)"},
	{"ParseDDL", "CREATE CHANGE STREAM %I FOR %I(%I) OPTIONS (%I = %S)"}, {"ParseDDL", "ALTER DATABASE %I SET OPTIONS (%I = %S)"}, {"ParseDDL", "CREATE MODEL %I REMOTE OPTIONS (endpoint = %S)"},
	{"ParseDDL", "CREATE PROTO BUNDLE (%I.%I, %I)"}, {"ParseDDL", "ALTER TABLE %I ADD CONSTRAINT %I CHECK (%I != %S)"}, {"ParseDDL", "ALTER TABLE %I ADD CONSTRAINT %I FOREIGN KEY (%I) REFERENCES %I (%I)"},
	{"ParseDDL", "CREATE SEARCH INDEX %I ON %I (%I)"}, {"ParseDDL", "ALTER TABLE %I RENAME TO %I"}, {"ParseDDL", "CREATE SCHEMA %I"}, {"ParseDDL", "ALTER TABLE %I ADD SYNONYM %I"},
	{"ParseDDL", "CREATE LOCALITY GROUP %I OPTIONS (%I = %S)"}, {"ParseDDL", "CREATE PROPERTY GRAPH %I NODE TABLES (%I AS %I KEY (%I) LABEL %I PROPERTIES (%I AS %I))"},
	{"ParseDDL", "CREATE TABLE %I (%I INT64) PRIMARY KEY (%I), INTERLEAVE IN PARENT %I"}, {"ParseDDL", "CREATE VECTOR INDEX %I ON %I (%I) OPTIONS (distance_type = %S)"},
	{"ParseDDL", "ALTER TABLE %I ALTER COLUMN %I SET OPTIONS (%I = %S)"}, {"ParseDDL", "DROP INDEX %I"}, {"ParseDDL", "CREATE TABLE %I.%I (%I %I.%I) PRIMARY KEY (%I)"},
	{"ParseDML", "INSERT INTO %I (%I) VALUES (%S, %B)"}, {"ParseDML", "UPDATE %I AS %I SET %I.%I = %S WHERE %I = %B"}, {"ParseDML", "DELETE FROM %I WHERE %I = %S THEN RETURN %I"},
	{"ParseDML", "INSERT OR UPDATE %I (%I) SELECT %S"}, {"ParseStatement", "CALL %I.%I(%S, %B)"},
	{"ParseType", "%I.%I"}, {"ParseType", "STRUCT<%I %I, %I ARRAY<%I.%I>>"}, {"ParseType", "ARRAY<%I>"},
}

var surviveIdentParts = []string{"a", "B", "1", "_", " ", "-", "`", "\\", "'", "\"", "é", ".", "\n", "*/", "--", "日", "\t", "x", "#"}
var surviveValueParts = []string{"'", "\"", "`", "\\", "a", " ", "\n", "é", "{", "}", ":", "\t", "\x00", "x", "--", "/*", ";", "\\n", "\\\"", "''", "\"\"", "日", "\x7f", "\u0085", "\\u0041", "it's", "\"q\"", "\r"}

func drawSurviveInput(t *rapid.T) (entry, src, tmpl string) {
	tp := surviveTemplates[rapid.IntRange(0, len(surviveTemplates)-1).Draw(t, "template")]
	compose := func(parts []string, label string, max int) string {
		n := rapid.IntRange(1, max).Draw(t, label+".n")
		var b strings.Builder
		for i := 0; i < n; i++ {
			b.WriteString(parts[rapid.IntRange(0, len(parts)-1).Draw(t, label+".part")])
		}
		return b.String()
	}
	var out strings.Builder
	text := tp.text
	for i := 0; i < len(text); i++ {
		if text[i] != '%' || i+1 >= len(text) {
			out.WriteByte(text[i])
			continue
		}
		i++
		var l gen.Lex
		switch text[i] {
		case 'S':
			l = gen.Lex{K: gen.STR, V: compose(surviveValueParts, "str", 6)}
		case 'B':
			v := compose(surviveValueParts, "bytes", 5)
			if rapid.IntRange(0, 3).Draw(t, "rawbyte") == 0 {
				v += string([]byte{rapid.Byte().Draw(t, "byte")})
			}
			l = gen.Lex{K: gen.BYTES, V: v}
		default: // I
			var v string
			switch rapid.IntRange(0, 9).Draw(t, "ident.kind") {
			case 0, 1, 2:
				// a reserved keyword in a drawn letter case
				w := reflex.ReservedWords()
				sortStrings(w)
				v = w[rapid.IntRange(0, len(w)-1).Draw(t, "reserved")]
				switch rapid.IntRange(0, 2).Draw(t, "case") {
				case 0:
					v = strings.ToLower(v)
				case 1:
					v = v[:1] + strings.ToLower(v[1:])
				}
			case 3, 4:
				v = []string{"a", "b", "Col_2", "_x", "t1"}[rapid.IntRange(0, 4).Draw(t, "plain")]
			default:
				v = compose(surviveIdentParts, "ident", 5)
			}
			l = gen.Lex{K: gen.ID, V: v}
		}
		ps, _ := gen.Render(t, []gen.Lex{l}, gen.RenderOpts{NoComments: true})
		out.WriteString(ps[0].Text)
	}
	return tp.entry, out.String(), tp.text
}
