package props

import (
	"os"
	"testing"

	"verif/internal/harness"
	"verif/internal/mutate"
)

// fuzzEntries lists the Case.Entry values a byte-level fuzz input may be given to, per property.
func fuzzEntries(id string) []string {
	switch id {
	case "C03", "C20":
		return c03Entries
	case "C01", "C04", "C05", "C06", "C09", "C10":
		return entryNames
	case "C11":
		return []string{"ParseStatements", "ParseDDLs", "ParseDMLs"}
	case "C12", "C13", "C14":
		return []string{""}
	case "C15":
		return quoteFns
	}
	return nil
}

// FuzzOracle is the native coverage-guided leg of the thorough tier: the bytes become (entry selector, input)
// and the property selected by VERIF_PROP is decided by the same oracle the rapid legs use. Known findings are
// filtered inside the target so that a confirmed finding does not end the campaign in seconds.
func FuzzOracle(f *testing.F) {
	id := os.Getenv("VERIF_PROP")
	p := harness.Lookup(id)
	es := fuzzEntries(id)
	if p == nil || p.Oracle == nil || es == nil {
		f.Skip("VERIF_PROP does not name a fuzzable property")
	}
	ctx := harness.NewCtx(p)
	for i := range es {
		for k, h := range mutate.Hostile {
			if k%3 == i%3 {
				f.Add(byte(i), []byte(h))
			}
			if k%11 == i%11 {
				f.Add(byte(i), []byte("SELECT 1; "+h))
			}
		}
		for j, c := range corpus() {
			if j%17 == i%17 && len(c.Src) < 300 {
				f.Add(byte(i), []byte(c.Src))
			}
		}
		f.Add(byte(i), []byte(""))
		f.Add(byte(i), []byte("SELECT a, b FROM t WHERE x IN (1, 2) ORDER BY 1"))
		f.Add(byte(i), []byte("CREATE TABLE t (a INT64 NOT NULL, b ARRAY<STRING(MAX)>) PRIMARY KEY (a)"))
		f.Add(byte(i), []byte("INSERT INTO t (a) VALUES (1), (DEFAULT) THEN RETURN *"))
		f.Add(byte(i), []byte("CAST(a AS STRUCT<x INT64, ARRAY<ARRAY<BOOL>>>)"))
	}
	f.Fuzz(func(t *testing.T, sel byte, data []byte) {
		if len(data) > 2048 {
			return
		}
		cs := &harness.Case{Leg: "fuzz", Entry: es[int(sel)%len(es)], Input: string(data)}
		if id == "C20" {
			cs.Leg = "errors"
		}
		ds := p.Oracle(ctx, cs)
		if path, sig := ctx.FuzzCheck(cs, ds); path != "" {
			t.Fatalf("FUZZ-VIOLATION property=%s replay=%s sig=%q", id, path, sig)
		}
	})
}
