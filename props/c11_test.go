package props

import (
	"fmt"
	"reflect"
	"strings"

	"github.com/cloudspannerecosystem/memefish"
	"github.com/cloudspannerecosystem/memefish/ast"
	"pgregory.net/rapid"

	"verif/internal/astx"
	"verif/internal/harness"
	"verif/internal/mutate"
	"verif/internal/reflex"
)

// C11 — statement lists compose: ParseStatements == ParseStatement per raw statement.

func init() {
	harness.Register(&harness.Property{
		ID: "C11", Run: runC11, Oracle: oracleC11, Minimize: true,
		Rule: "cases: ';'-joined lists of 0-5 generator sentences, corpus files and broken mutants, with drawn trivia (comments of all kinds) around the separators, empty statements (';;', leading / trailing ';') " +
			"and end-of-input-sensitive sentences (trailing comma in a select list); only inputs the reference lexer accepts. For ParseStatements, ParseDDLs and ParseDMLs: the list is accepted iff every non-empty piece of SplitRawStatements " +
			"is accepted by the single-statement entry point; then statement i equals the stand-alone parse of piece i and every position differs by exactly the piece's offset. " +
			"Non-trivial = >=2 non-empty statements; distinct by (entry, input).",
		Assumptions: []string{"SplitRawStatements is trusted only as far as C12 checks it; a piece is non-empty when the reference lexer finds a token in it"},
	})
}

// shiftPos adds delta to every valid token.Pos stored in the tree (in place).
func shiftPos(n ast.Node, delta int) {
	var rec func(v reflect.Value)
	rec = func(v reflect.Value) {
		switch v.Kind() {
		case reflect.Ptr, reflect.Interface:
			if !v.IsNil() {
				rec(v.Elem())
			}
		case reflect.Struct:
			for i := 0; i < v.NumField(); i++ {
				if v.Type().Field(i).IsExported() {
					rec(v.Field(i))
				}
			}
		case reflect.Slice:
			for i := 0; i < v.Len(); i++ {
				rec(v.Index(i))
			}
		case reflect.Int:
			if v.Type() == posT && v.Int() >= 0 && v.CanSet() {
				v.SetInt(v.Int() + int64(delta))
			}
		}
	}
	rec(reflect.ValueOf(n))
}

func oracleC11(ctx *harness.Ctx, cs *harness.Case) (ds []harness.Discrepancy) {
	src := cs.Input
	add := func(sig, msg string) {
		ds = append(ds, harness.Discrepancy{Sig: sig, Msg: msg + " entry=" + cs.Entry + " input=" + q(trunc(src, 300))})
	}
	le := entryByName[cs.Entry]
	if le == nil || !le.List {
		return
	}
	if _, err := reflex.Lex(src); err != nil {
		return
	}
	single := entryByName[le.Single]
	var pieces []*memefish.RawStatement
	var serr error
	if p := callGuard(func() { pieces, serr = memefish.SplitRawStatements("", src) }); p != nil || serr != nil {
		return // C12 / C03
	}
	var nonEmpty []*memefish.RawStatement
	for _, pc := range pieces {
		toks, err := reflex.Lex(pc.Statement)
		if err == nil && len(toks) > 1 {
			nonEmpty = append(nonEmpty, pc)
		}
	}
	lo := le.Guarded(src)
	if lo.Panicked {
		return
	}
	allOK := true
	var firstBad string
	var singles [][]ast.Node
	for _, pc := range nonEmpty {
		so := single.Guarded(pc.Statement)
		if so.Panicked {
			return
		}
		if so.Err != nil {
			if allOK {
				firstBad = strings.TrimPrefix(rejectSig("x", pc.Statement, so.Err), "C08 reject")
			}
			allOK = false
		}
		singles = append(singles, so.Nodes)
	}
	listOK := lo.Err == nil
	if listOK != allOK {
		if listOK {
			add("C11 list-accepted-but-piece-rejected"+firstBad, fmt.Sprintf("%s accepts the list but %s rejects a piece", le.Name, single.Name))
		} else {
			add("C11 list-rejected-but-pieces-accepted"+strings.TrimPrefix(rejectSig("x", src, lo.Err), "C08 reject"), fmt.Sprintf("%s rejects (%v) although every non-empty piece is accepted by %s", le.Name, lo.Err, single.Name))
		}
		return
	}
	if !listOK {
		return
	}
	if len(lo.Nodes) != len(nonEmpty) {
		add("C11 statement-count", fmt.Sprintf("%s returned %d statements, the input has %d non-empty pieces", le.Name, len(lo.Nodes), len(nonEmpty)))
		return
	}
	for i, pc := range nonEmpty {
		alone := singles[i][0]
		if d := astx.Equal(lo.Nodes[i], alone); d != "" {
			add("C11 element-differs "+astx.OwnerSig(alone, d), fmt.Sprintf("statement %d differs from the stand-alone parse of its piece: %s", i, d))
			continue
		}
		shiftPos(alone, int(pc.Pos))
		if d := astx.EqualExact(lo.Nodes[i], alone); d != "" {
			add("C11 positions-not-shifted "+astx.OwnerSig(alone, d), fmt.Sprintf("statement %d: positions are not those of the stand-alone parse shifted by %d: %s", i, pc.Pos, d))
		}
	}
	return
}

// c11PlainComments: ASCII-only lists without quotes whose only special feature is ONE comment (of each style) that contains a ';',
// at every gap of a two-statement list. (Anything that decides "this input needs no lexer" from a scan for quotes and comment
// openers has to know every comment style; the generated lists nearly always mix styles and quotes.)
func c11PlainComments(ctx *harness.Ctx) {
	lists := map[string][]string{
		"ParseStatements": {"SELECT 1", "SELECT a FROM t WHERE b = 2", "DELETE FROM t WHERE TRUE", "CREATE TABLE t (a INT64) PRIMARY KEY (a)"},
		"ParseDDLs":       {"DROP TABLE t", "CREATE TABLE t (a INT64) PRIMARY KEY (a)", "CREATE INDEX i ON t (a)"},
		"ParseDMLs":       {"DELETE FROM t WHERE TRUE", "UPDATE t SET a = 1 WHERE TRUE", "INSERT INTO t (a) VALUES (1)"},
	}
	comments := []string{"# one; not two\n", "-- one; two\n", "// x; y\n", "/* a; b */", "#;\n", "--;\n", "/*;*/", "# a ; b ; c\n"}
	idx := 0
	for _, le := range []string{"ParseStatements", "ParseDDLs", "ParseDMLs"} {
		for i, s1 := range lists[le] {
			for j, s2 := range lists[le] {
				if (i+j)%2 == 1 {
					continue
				}
				for _, c := range comments {
					first := strings.SplitN(s1, " ", 2)
					for _, src := range []string{
						first[0] + " " + c + first[1] + ";\n" + s2,
						s1 + " " + c + ";\n" + s2,
						s1 + "; " + c + s2,
						s1 + ";\n" + s2 + " " + c,
						s1 + " " + c + "; " + c + s2 + ";" + c,
					} {
						idx++
						if idx%ctx.Of != ctx.Shard {
							continue
						}
						cs := &harness.Case{Leg: "plain-comments", Entry: le, Input: src}
						ctx.Eval(1)
						ctx.NonTrivial(harness.Hash(le, src))
						ctx.Check(nil, cs, oracleC11(ctx, cs))
					}
				}
			}
		}
	}
}

func runC11(ctx *harness.Ctx) {
	ctx.Leg("plain-comments", func() { c11PlainComments(ctx) })
	useAvoid(ctx)
	seps := []string{";", ";", "; ", ";\n", " ; ", ";;", "; /* c */ ", ";-- c\n", "\n;\n", " /* ; */ ; ", ";#x\n;"}
	ctx.Rapid("lists", ctx.Pick(8000, 150000), func(t *rapid.T) {
		kind := rapid.SampledFrom([]string{"statement", "statement", "ddl", "dml"}).Draw(t, "listkind")
		le := map[string]string{"statement": "ParseStatements", "ddl": "ParseDDLs", "dml": "ParseDMLs"}[kind]
		n := rapid.IntRange(0, 5).Draw(t, "n")
		many := rapid.IntRange(0, 19).Draw(t, "many") == 0
		if many {
			// long lists of short statements: state carried across the statements of one call
			n = rapid.IntRange(30, 140).Draw(t, "n.many")
			ctx.Class("many-statements")
		}
		var b strings.Builder
		if rapid.IntRange(0, 4).Draw(t, "leading") == 0 {
			b.WriteString(rapid.SampledFrom(seps).Draw(t, "lead"))
		}
		broken, trailingComma := false, false
		dominant := 0
		for i := 0; i < n; i++ {
			if i > 0 {
				b.WriteString(rapid.SampledFrom(seps).Draw(t, "sep"))
			}
			k := kind
			if kind == "statement" {
				k = rapid.SampledFrom([]string{"query", "query", "ddl", "dml", "call"}).Draw(t, "k")
			}
			var s string
			srcKind := rapid.IntRange(0, 9).Draw(t, "src")
			if many {
				srcKind = 10
			}
			switch srcKind {
			case 10:
				// one dominant short statement repeated most of the time (hundreds of tuples / constructors / subscripts in one call)
				var pool []string
				if kind == "ddl" {
					pool = []string{"DROP TABLE t", "CREATE TABLE t (a INT64 DEFAULT ((1, 2).x)) PRIMARY KEY (a)", "CREATE INDEX i ON t (a)", "ALTER TABLE t ADD COLUMN c STRUCT<a.b, ARRAY<INT64>>"}
				} else if kind == "dml" {
					pool = []string{"DELETE t WHERE (a, b) = (1, 2)", "INSERT INTO t (a) VALUES ((1, 2))", "UPDATE t SET a = (1, (2)).x WHERE TRUE"}
				} else {
					pool = []string{"SELECT (1, 2), (3, 4) AS t, (a, b).x, (5, (6))", "SELECT 1", "SELECT [1, 2][OFFSET(0)]", "SELECT NEW T {a: 1, b {c: 2}}", "SELECT CAST(x AS ARRAY<STRUCT<a INT64>>)", "SELECT a.b.c FROM (SELECT 1) AS s",
						"DELETE t WHERE (a, b) = (1, 2)", "CALL p((1, 2))"}
				}
				if i == 0 {
					dominant = rapid.IntRange(0, len(pool)-1).Draw(t, "dominant")
				}
				if rapid.IntRange(0, 4).Draw(t, "same") > 0 {
					s = pool[dominant%len(pool)]
				} else {
					s = rapid.SampledFrom(pool).Draw(t, "short")
				}
			case 0, 1:
				good := corpusGood()
				s = good[rapid.IntRange(0, len(good)-1).Draw(t, "file")].Src
			case 2:
				s = rapid.SampledFrom([]string{"SELECT 1,", "SELECT a, b,", "SELECT *, ", "SELECT 1 AS x ,", "FROM t |> SELECT a,", "SELECT 1 AS x |> SELECT x, x ,", "FROM t |> WHERE TRUE |> SELECT *,",
					"SELECT a, FROM t", "SELECT 1 UNION ALL SELECT 2,", "(SELECT 1,)", "SELECT (SELECT 1,)", "FROM t |> SELECT a, |> WHERE a"}).Draw(t, "tc")
				trailingComma = true
			default:
				s = drawGen(t, k, rapid.SampledFrom([]int{1, 2, 2, 3}).Draw(t, "depth")).Text
			}
			breakDraw := rapid.IntRange(0, 11).Draw(t, "break")
			if many && !(i == n/2 && rapid.IntRange(0, 9).Draw(t, "break-one") == 0) {
				breakDraw = 11 // long lists are mostly intact: at most one broken piece, in 10% of them
			}
			switch breakDraw {
			case 0, 1:
				s = mutate.Tokens(t, s, 2)
				broken = true
			case 2:
				// a separator inside the statement: a ',' turned into ';' / a ';' inserted at a token boundary.
				// The splitter cuts there, so the list parser must too.
				ps := mutate.Split(s)
				if len(ps) > 1 {
					var commas []int
					for i, p := range ps {
						if p.Raw == "," {
							commas = append(commas, i)
						}
					}
					if len(commas) > 0 && rapid.Bool().Draw(t, "comma-to-semi") {
						ps[commas[rapid.IntRange(0, len(commas)-1).Draw(t, "which")]].Raw = ";"
					} else {
						i := rapid.IntRange(1, len(ps)-1).Draw(t, "at")
						ps[i].Lead = " ; " + ps[i].Lead
					}
					s = mutate.Join(ps)
					broken = true
					ctx.Class("separator-inside-statement")
				}
			}
			// a piece must not contain a top-level ';' of its own nor end inside a line comment
			s = strings.TrimRight(s, " \n;")
			b.WriteString(s)
			b.WriteString("\n")
		}
		if rapid.IntRange(0, 2).Draw(t, "trailing") == 0 {
			b.WriteString(rapid.SampledFrom(seps).Draw(t, "trail"))
		}
		src := b.String()
		if fp := farPrefix(t, 40, true); fp != "" {
			src = fp + src
			ctx.Class("far-offset")
		}
		if _, err := reflex.Lex(src); err != nil {
			ctx.Class("lexically-invalid(skipped)")
			return
		}
		cs := &harness.Case{Leg: "lists", Entry: le, Input: src}
		ctx.Eval(1)
		if broken {
			ctx.Class("contains-broken-piece")
		}
		if trailingComma {
			ctx.Class("contains-trailing-comma-select")
		}
		if strings.Contains(src, "/*") || strings.Contains(src, "--") || strings.Contains(src, "#") {
			ctx.Class("comment-present")
		}
		if n >= 2 {
			ctx.NonTrivial(harness.Hash(le, src))
		}
		ctx.Sample(map[string]any{"entry": le, "input": q(trunc(src, 300))})
		ctx.Check(t, cs, oracleC11(ctx, cs))
	})
}
