package props

import (
	"bytes"
	"fmt"
	"os"
	"os/exec"
	"path/filepath"
	"reflect"
	"strconv"
	"strings"

	"github.com/cloudspannerecosystem/memefish/ast"
	"github.com/cloudspannerecosystem/memefish/token"
	"github.com/cloudspannerecosystem/memefish/tools/util/astcatalog"
	"github.com/cloudspannerecosystem/memefish/tools/util/poslang"
	"pgregory.net/rapid"

	"verif/internal/astx"
	"verif/internal/harness"
	"verif/internal/mutate"
	"verif/internal/posx"
	"verif/internal/registry"
	"verif/internal/synth"
)

// C17 — traversal visits every node exactly once, in source order, with correct paths.
// C19 — generated Pos/End/Walk code equals what the node documentation specifies.

func init() {
	harness.Register(&harness.Property{
		ID: "C17", Run: runC17, Oracle: oracleC17,
		Rule: "cases: trees returned by the parser for generator sentences, corpus files and mutants (with Bad nodes), statement lists for the *Many variants, and a synthetic instance of each node struct of ast/ast.go " +
			"with a pseudo-random subset of node-typed fields populated (interfaces by a random implementer, slices of length 0-3; also root slices of 64-1025 elements), trees with one list of 3-1100 elements (18 source forms) or a 100-1000 operand chain. Oracle: a recording visitor (Visit/VisitMany/Field/Index) against reflection over exported fields: " +
			"same nodes, once each, pre-order, siblings in declaration order, the Field/Index trail equals the reflection path; a drawn pruning set skips exactly those subtrees (Walk and Inspect); one Preorder sequence value ranged in full, then for k items (yields the first k and stops), then in full again; an unpruned Inspect after the pruned one. " +
			"Non-trivial = tree with >=5 nodes and >=1 pruned internal node or an early exit 0<k<total; distinct by (tree hash, pruning set, k).",
	})
	harness.Register(&harness.Property{
		ID: "C19", Run: runC19, Oracle: oracleC19,
		Rule: "cases: (1) the repository's generators are run on the current ast/ast.go and their output is compared byte for byte with ast/pos.go and ast/walk_internal.go; " +
			"(2) for every node of parsed trees (generator, corpus, mutants) and for synthetic instances of every node struct with random position fields (valid and invalid) and random optional children: " +
			"node.Pos()/End(), the repository's poslang interpreter on the documented expression, and an independent interpreter (internal/posx, own extraction of the '// pos =' lines) must agree; " +
			"(3) per node type, ast.Walk must enumerate exactly the node-typed fields in declaration order, and the traversal of every tree looked at (incl. lists of up to 1100 elements) equals C17's reflection model. Non-trivial = node whose expression has a choice ('??', '||') or an offset; distinct by (type, pos/end, chosen alternative).",
		Assumptions: []string{"the poslang interpreter is only compared on nodes where it does not panic on a nil required child (synthetic instances may leave required children nil; the compiled methods and posx are nil-safe)"},
	})
}

// ---------------------------------------------------------------- recording visitor

type visitEvent struct {
	node ast.Node
	path string
}

type recorder struct {
	events   *[]visitEvent
	manys    *[]string
	prune    map[int]bool // preorder index of Visit calls to prune
	counter  *int
	path     string
	pruneNil bool
}

func (r *recorder) Visit(n ast.Node) ast.Visitor {
	idx := *r.counter
	*r.counter++
	*r.events = append(*r.events, visitEvent{n, r.path})
	if r.prune[idx] {
		return nil
	}
	return r
}

func (r *recorder) VisitMany(ns []ast.Node) ast.Visitor {
	*r.manys = append(*r.manys, fmt.Sprintf("%s#%d", r.path, len(ns)))
	return r
}

func (r *recorder) Field(name string) ast.Visitor {
	c := *r
	c.path = r.path + "." + name
	return &c
}

func (r *recorder) Index(i int) ast.Visitor {
	c := *r
	c.path = r.path + "[" + strconv.Itoa(i) + "]"
	return &c
}

// expectedWalk lists the Visit calls reflection predicts, honouring the pruning set (indices in call order).
func expectedWalk(roots []ast.Node, many bool, prune map[int]bool) (ev []visitEvent, manys []string) {
	idx := 0
	var rec func(n ast.Node, path string)
	rec = func(n ast.Node, path string) {
		if astx.IsNil(n) {
			return
		}
		my := idx
		idx++
		ev = append(ev, visitEvent{n, path})
		if prune[my] {
			return
		}
		v := reflect.ValueOf(n).Elem()
		for _, f := range astx.NodeFields(v.Type()) {
			fv := v.FieldByName(f.Name)
			if f.Slice {
				manys = append(manys, fmt.Sprintf("%s.%s#%d", path, f.Name, fv.Len()))
				for j := 0; j < fv.Len(); j++ {
					c, _ := fv.Index(j).Interface().(ast.Node)
					rec(c, fmt.Sprintf("%s.%s[%d]", path, f.Name, j))
				}
				continue
			}
			if fv.IsNil() {
				continue
			}
			c, _ := fv.Interface().(ast.Node)
			rec(c, path+"."+f.Name)
		}
	}
	if many {
		manys = append(manys, fmt.Sprintf("#%d", len(roots)))
		for i, r := range roots {
			rec(r, fmt.Sprintf("[%d]", i))
		}
	} else {
		rec(roots[0], "")
	}
	return
}

func sameNode(a, b ast.Node) bool {
	if astx.IsNil(a) || astx.IsNil(b) {
		return astx.IsNil(a) == astx.IsNil(b)
	}
	return reflect.ValueOf(a).Pointer() == reflect.ValueOf(b).Pointer() && reflect.TypeOf(a) == reflect.TypeOf(b)
}

// c17Check compares all traversal functions with the reflection model.
func c17Check(roots []ast.Node, many bool, pruneList []int, k int, add func(sig, msg string)) {
	prune := map[int]bool{}
	for _, p := range pruneList {
		prune[p] = true
	}
	want, wantMany := expectedWalk(roots, many, prune)
	var got []visitEvent
	var gotMany []string
	cnt := 0
	rec := &recorder{events: &got, manys: &gotMany, prune: prune, counter: &cnt}
	if p := callGuard(func() {
		if many {
			ast.WalkMany(roots, rec)
		} else {
			ast.Walk(roots[0], rec)
		}
	}); p != nil {
		add("C17 panic Walk "+panicKind(p), fmt.Sprint(p))
		return
	}
	typeAt := func(ev []visitEvent, i int) string {
		if i < len(ev) {
			return astx.TypeName(ev[i].node)
		}
		return "<none>"
	}
	parentType := func(path string) string {
		// the type that owns the last field of path, found on the first root
		return ownerOfPath(roots, many, path)
	}
	n := len(got)
	if len(want) < n {
		n = len(want)
	}
	for i := 0; i < n; i++ {
		if !sameNode(got[i].node, want[i].node) {
			add(fmt.Sprintf("C17 order-or-membership in %s", parentType(want[i].path)),
				fmt.Sprintf("visit #%d: Walk gave %s at %q, reflection expects %s at %q", i, typeAt(got, i), got[i].path, typeAt(want, i), want[i].path))
			return
		}
		if got[i].path != want[i].path {
			add(fmt.Sprintf("C17 path in %s", parentType(want[i].path)), fmt.Sprintf("visit #%d %s: Field/Index trail %q, real path %q", i, typeAt(got, i), got[i].path, want[i].path))
			return
		}
	}
	if len(got) != len(want) {
		where := "<end>"
		if len(want) > len(got) {
			where = parentType(want[len(got)].path)
		} else {
			where = parentType(got[len(want)].path)
		}
		add(fmt.Sprintf("C17 visit-count in %s", where), fmt.Sprintf("Walk visited %d nodes, reflection finds %d (first extra/missing: got %s, want %s)", len(got), len(want), typeAt(got, len(want)), typeAt(want, len(got))))
		return
	}
	// VisitMany calls: same multiset (their relative order to Visit calls is not specified)
	if d := multisetDiff(gotMany, wantMany); d != "" {
		add("C17 VisitMany", "VisitMany calls differ: "+d)
	}
	// Inspect with the same pruning
	var insp []ast.Node
	ic := 0
	f := func(n ast.Node) bool {
		idx := ic
		ic++
		insp = append(insp, n)
		return !prune[idx]
	}
	if p := callGuard(func() {
		if many {
			ast.InspectMany(roots, f)
		} else {
			ast.Inspect(roots[0], f)
		}
	}); p != nil {
		add("C17 panic Inspect "+panicKind(p), fmt.Sprint(p))
		return
	}
	if len(insp) != len(want) {
		add("C17 Inspect visit-count", fmt.Sprintf("Inspect visited %d nodes, expected %d", len(insp), len(want)))
	} else {
		for i := range insp {
			if !sameNode(insp[i], want[i].node) {
				add("C17 Inspect order", fmt.Sprintf("Inspect visit #%d is %s, expected %s", i, astx.TypeName(insp[i]), typeAt(want, i)))
				break
			}
		}
	}
	// Preorder: one sequence value ranged three times - in full, with an early exit after k, and in full again
	// (an iter.Seq may be ranged any number of times; state kept from an earlier, abandoned iteration must not leak).
	full, _ := expectedWalk(roots, many, nil)
	var seq func(yield func(ast.Node) bool)
	if p := callGuard(func() {
		if many {
			seq = ast.PreorderMany(roots)
		} else {
			seq = ast.Preorder(roots[0])
		}
	}); p != nil {
		add("C17 panic Preorder "+panicKind(p), fmt.Sprint(p))
		return
	}
	run := func(k int) (pre []ast.Node, calls int, pn any) {
		pn = callGuard(func() {
			seq(func(n ast.Node) bool {
				calls++
				pre = append(pre, n)
				return k <= 0 || len(pre) < k
			})
		})
		return
	}
	for round, kk := range []int{0, k, 0} {
		pre, calls, pn := run(kk)
		if pn != nil {
			add("C17 panic Preorder "+panicKind(pn), fmt.Sprint(pn))
			return
		}
		wantN := len(full)
		if kk > 0 && kk < wantN {
			wantN = kk
		}
		what := [...]string{"first full range", "early-exit", "re-iteration after an early stop"}[round]
		if len(pre) != wantN || calls != wantN {
			sig := "C17 Preorder early-exit"
			if round == 2 {
				sig = "C17 Preorder re-iteration"
			} else if round == 0 {
				sig = "C17 Preorder visit-count"
			}
			add(sig, fmt.Sprintf("%s (consumer stops after %d items): yield was called %d times, expected %d (tree has %d nodes)", what, kk, calls, wantN, len(full)))
			break
		}
		bad := false
		for i := range pre {
			if !sameNode(pre[i], full[i].node) {
				add("C17 Preorder order", fmt.Sprintf("%s: Preorder item #%d is %s, expected %s", what, i, astx.TypeName(pre[i]), typeAt(full, i)))
				bad = true
				break
			}
		}
		if bad {
			break
		}
	}
	// and an unpruned Inspect after the pruned traversals (no state may survive a traversal)
	var again []ast.Node
	g := func(n ast.Node) bool { again = append(again, n); return true }
	if p := callGuard(func() {
		if many {
			ast.InspectMany(roots, g)
		} else {
			ast.Inspect(roots[0], g)
		}
	}); p != nil {
		add("C17 panic Inspect "+panicKind(p), fmt.Sprint(p))
		return
	}
	if len(again) != len(full) {
		add("C17 Inspect visit-count", fmt.Sprintf("a second, unpruned Inspect visited %d nodes, expected %d", len(again), len(full)))
	} else {
		for i := range again {
			if !sameNode(again[i], full[i].node) {
				add("C17 Inspect order", fmt.Sprintf("second Inspect visit #%d is %s, expected %s", i, astx.TypeName(again[i]), typeAt(full, i)))
				break
			}
		}
	}
	// a traversal that the consumer leaves by a panic (recovered by the caller) must leave nothing behind either: the next
	// traversal - on the same goroutine, so it meets whatever the aborted one left in a pool - visits exactly its own nodes
	if k > 0 && k < len(full) {
		type abort struct{}
		for _, how := range []string{"Inspect", "Walk"} {
			seen := 0
			pn := callGuard(func() {
				f := func(n ast.Node) bool {
					seen++
					if seen >= k {
						panic(abort{})
					}
					return true
				}
				switch {
				case how == "Inspect" && many:
					ast.InspectMany(roots, f)
				case how == "Inspect":
					ast.Inspect(roots[0], f)
				case many:
					ast.WalkMany(roots, panicVisitor{f})
				default:
					ast.Walk(roots[0], panicVisitor{f})
				}
			})
			if _, ok := pn.(abort); !ok {
				add("C17 aborted-walk panic-lost", fmt.Sprintf("a consumer panic at visit #%d of %s did not reach the caller unchanged: %v", k, how, pn))
				return
			}
			var after []ast.Node
			h := func(n ast.Node) bool { after = append(after, n); return true }
			if p := callGuard(func() {
				if many {
					ast.InspectMany(roots, h)
				} else {
					ast.Inspect(roots[0], h)
				}
			}); p != nil {
				add("C17 panic Inspect after-aborted-walk "+panicKind(p), fmt.Sprint(p))
				return
			}
			if len(after) != len(full) {
				add("C17 after-aborted-walk visit-count", fmt.Sprintf("after a %s that the consumer left by a panic at visit #%d, a full Inspect visited %d nodes, expected %d", how, k, len(after), len(full)))
				return
			}
			for i := range after {
				if !sameNode(after[i], full[i].node) {
					add("C17 after-aborted-walk order", fmt.Sprintf("after an aborted %s, Inspect visit #%d is %s, expected %s", how, i, astx.TypeName(after[i]), typeAt(full, i)))
					return
				}
			}
		}
	}
}

// panicVisitor adapts a func to ast.Visitor (the func may panic to abort the walk).
type panicVisitor struct{ f func(ast.Node) bool }

func (v panicVisitor) Visit(n ast.Node) ast.Visitor {
	if v.f(n) {
		return v
	}
	return nil
}
func (v panicVisitor) VisitMany([]ast.Node) ast.Visitor { return v }
func (v panicVisitor) Field(string) ast.Visitor         { return v }
func (v panicVisitor) Index(int) ast.Visitor            { return v }

func multisetDiff(a, b []string) string {
	m := map[string]int{}
	for _, x := range a {
		m[x]++
	}
	for _, x := range b {
		m[x]--
	}
	for k, v := range m {
		if v != 0 {
			return fmt.Sprintf("%q: %+d", k, v)
		}
	}
	return ""
}

// ownerOfPath returns the struct type that owns the last step of a reflection path.
func ownerOfPath(roots []ast.Node, many bool, path string) string {
	p := path
	var cur any
	if many {
		if !strings.HasPrefix(p, "[") {
			return "<roots>"
		}
		j := strings.IndexByte(p, ']')
		i, _ := strconv.Atoi(p[1:j])
		if i >= len(roots) {
			return "<roots>"
		}
		cur = roots[i]
		p = p[j+1:]
		if p == "" {
			return "<roots>"
		}
	} else {
		cur = roots[0]
		if p == "" {
			return "<root>"
		}
	}
	sig := astx.OwnerSig(cur, p)
	if i := strings.Index(sig, "."); i >= 0 {
		return sig[:i]
	}
	return sig
}

func parsePruneList(s string) []int {
	var out []int
	for _, f := range strings.Split(s, ",") {
		if n, err := strconv.Atoi(strings.TrimSpace(f)); err == nil {
			out = append(out, n)
		}
	}
	return out
}

var synthBuilder = synth.New(registry.All)

func oracleC17(ctx *harness.Ctx, cs *harness.Case) (ds []harness.Discrepancy) {
	add := func(sig, msg string) {
		ds = append(ds, harness.Discrepancy{Sig: sig, Msg: msg + " case=" + cs.Entry + " " + q(trunc(cs.Input, 160)) + " aux=" + fmt.Sprint(cs.Aux)})
	}
	prune := parsePruneList(cs.Aux["prune"])
	k, _ := strconv.Atoi(cs.Aux["k"])
	if cs.Entry == "synthetic" {
		seed, _ := strconv.ParseUint(cs.Aux["seed"], 10, 64)
		n := synthBuilder.Build(cs.Input, seed, 3)
		if long, _ := strconv.Atoi(cs.Aux["long"]); long > 0 {
			n = synthBuilder.BuildLong(cs.Input, seed, 2, long)
		}
		if n == nil {
			return
		}
		c17Check([]ast.Node{n}, false, prune, k, add)
		return
	}
	e := entryByName[cs.Entry]
	if e == nil {
		return
	}
	o := e.Guarded(cs.Input)
	if o.Panicked {
		return
	}
	var roots []ast.Node
	for _, n := range o.Nodes {
		if !isNilNode(n) {
			roots = append(roots, n)
		}
	}
	if len(roots) == 0 {
		return
	}
	if e.List {
		c17Check(roots, true, prune, k, add)
	}
	c17Check(roots[:1], false, prune, k, add)
	return
}

func c17Draw(t *rapid.T, total int) (prune string, k int) {
	var ps []string
	if total > 1 {
		n := rapid.IntRange(0, 3).Draw(t, "nprune")
		for i := 0; i < n; i++ {
			ps = append(ps, strconv.Itoa(rapid.IntRange(0, total-1).Draw(t, "prune")))
		}
	}
	k = rapid.IntRange(0, total).Draw(t, "k")
	return strings.Join(ps, ","), k
}

func runC17(ctx *harness.Ctx) {
	useAvoid(ctx)
	record := func(cs *harness.Case, total int, dump string) {
		ctx.Eval(1)
		k, _ := strconv.Atoi(cs.Aux["k"])
		if total >= 5 && (cs.Aux["prune"] != "" || (k > 0 && k < total)) {
			ctx.NonTrivial(harness.Hash(dump, cs.Aux["prune"], cs.Aux["k"]))
		}
	}
	ctx.Rapid("parsed", ctx.Pick(8000, 150000), func(t *rapid.T) {
		var src, kind string
		if rapid.IntRange(0, 3).Draw(t, "mut") == 0 {
			s := drawValid(t)
			src, kind = mutate.Tokens(t, s.Src, 2), s.Kind
		} else {
			s := drawValid(t)
			src, kind = s.Src, s.Kind
			if rapid.IntRange(0, 3).Draw(t, "list") == 0 {
				src = strings.TrimRight(src, " \n;") + "\n;" + drawValid(t).Src
			}
		}
		es := entriesForKind(kind)
		e := es[rapid.IntRange(0, len(es)-1).Draw(t, "entry")]
		o := e.Guarded(src)
		if o.Panicked || len(o.Nodes) == 0 || isNilNode(o.Nodes[0]) {
			return
		}
		total := len(astx.All(o.Nodes[0]))
		prune, k := c17Draw(t, total)
		cs := &harness.Case{Leg: "parsed", Entry: e.Name, Input: src, Aux: map[string]string{"prune": prune, "k": strconv.Itoa(k)}}
		record(cs, total, astx.Dump(o.Nodes[0], false))
		if astx.HasBad(o.Nodes[0]) {
			ctx.Class("tree-with-bad-node")
		}
		ctx.Check(t, cs, oracleC17(ctx, cs))
	})
	// one very long list per tree (list lengths around 128 / 256 / 512 / 1024), long statement lists for the *Many variants,
	// long operator chains next to a short list (deep pending-sibling stacks)
	ctx.Rapid("long-lists", ctx.Pick(150, 3000), func(t *rapid.T) {
		var src, en, form string
		if rapid.IntRange(0, 4).Draw(t, "from-G") == 0 {
			c := drawGenLong(t, "", 2)
			es := entriesForKind(c.S.Kind)
			src, en, form = c.Text, es[rapid.IntRange(0, len(es)-1).Draw(t, "entry")].Name, "G-long"
		} else {
			src, en, form = drawLongListSource(t)
		}
		e := entryByName[en]
		o := e.Guarded(src)
		if o.Panicked || len(o.Nodes) == 0 || isNilNode(o.Nodes[0]) {
			return
		}
		total := len(astx.All(o.Nodes[0]))
		prune, k := c17Draw(t, total)
		cs := &harness.Case{Leg: "long-lists", Entry: e.Name, Input: src, Aux: map[string]string{"prune": prune, "k": strconv.Itoa(k)}}
		record(cs, total, src)
		ctx.Class("long-lists:" + form)
		ctx.Check(t, cs, oracleC17(ctx, cs))
	})
	// synthetic instances whose root slices hold 100-1100 elements (every node type that has a slice field)
	ctx.Rapid("synthetic-long", ctx.Pick(150, 3000), func(t *rapid.T) {
		ti := rapid.IntRange(0, len(registry.All)-1).Draw(t, "type")
		name := astx.TypeName(registry.All[ti])
		seed := rapid.Uint64().Draw(t, "seed")
		long := rapid.SampledFrom(longListCounts).Draw(t, "long")
		n := synthBuilder.BuildLong(name, seed, 2, long)
		total := len(astx.All(n))
		if total < long {
			return // the type has no node slice
		}
		prune, k := c17Draw(t, total)
		cs := &harness.Case{Leg: "synthetic-long", Entry: "synthetic", Input: name, Aux: map[string]string{"seed": strconv.FormatUint(seed, 10), "long": strconv.Itoa(long), "prune": prune, "k": strconv.Itoa(k)}}
		record(cs, total, name+cs.Aux["seed"]+cs.Aux["long"])
		ctx.Class("synthetic-long")
		ctx.Check(t, cs, oracleC17(ctx, cs))
	})
	per := ctx.Pick(60, 1200)
	ctx.Rapid("synthetic", per*len(registry.All)/ctx.Of+1, func(t *rapid.T) {
		ti := rapid.IntRange(0, len(registry.All)-1).Draw(t, "type")
		name := astx.TypeName(registry.All[ti])
		seed := rapid.Uint64().Draw(t, "seed")
		n := synthBuilder.Build(name, seed, 3)
		total := len(astx.All(n))
		prune, k := c17Draw(t, total)
		cs := &harness.Case{Leg: "synthetic", Entry: "synthetic", Input: name, Aux: map[string]string{"seed": strconv.FormatUint(seed, 10), "prune": prune, "k": strconv.Itoa(k)}}
		record(cs, total, astx.Dump(n, false))
		ctx.Class("synthetic:" + name)
		ctx.Check(t, cs, oracleC17(ctx, cs))
	})
	// every type at least a few times, deterministically
	ctx.Leg("synthetic-each-type", func() {
		for i, z := range registry.All {
			if i%ctx.Of != ctx.Shard {
				continue
			}
			name := astx.TypeName(z)
			for s := uint64(1); s <= uint64(ctx.Pick(20, 200)); s++ {
				n := synthBuilder.Build(name, s*2654435761, 3)
				total := len(astx.All(n))
				cs := &harness.Case{Leg: "synthetic-each-type", Entry: "synthetic", Input: name,
					Aux: map[string]string{"seed": strconv.FormatUint(s*2654435761, 10), "prune": strconv.Itoa(int(s) % max(total, 1)), "k": strconv.Itoa(int(s*7) % (total + 1))}}
				record(cs, total, astx.Dump(n, false))
				ctx.Check(nil, cs, oracleC17(ctx, cs))
			}
		}
		ctx.Exhaustive(fmt.Sprintf("every node struct of ast/ast.go (%d types) instantiated synthetically", len(registry.All)), ctx.ViolationCount() == 0)
	})
}

// ---------------------------------------------------------------- C19

type posSpec struct {
	pos, end       string
	rpos, rend     poslang.PosExpr
	rposOK, rendOK bool
}

var (
	c19Specs    map[string]*posSpec
	c19SpecsErr error
)

func loadC19Specs() {
	if c19Specs != nil || c19SpecsErr != nil {
		return
	}
	own, err := posx.LoadSpecs(filepath.Join(repoDir(), "ast", "ast.go"))
	if err != nil {
		c19SpecsErr = err
		return
	}
	cat, err := astcatalog.Load(filepath.Join(repoDir(), "ast", "ast.go"), filepath.Join(repoDir(), "ast", "ast_const.go"))
	if err != nil {
		c19SpecsErr = err
		return
	}
	c19Specs = map[string]*posSpec{}
	for name, s := range own {
		ps := &posSpec{pos: s.Pos, end: s.End}
		if def, ok := cat.Structs[astcatalog.NodeStructType(name)]; ok {
			if e, err := poslang.Parse(def.Pos); err == nil {
				ps.rpos, ps.rposOK = e, true
			}
			if e, err := poslang.Parse(def.End); err == nil {
				ps.rend, ps.rendOK = e, true
			}
			if def.Pos != s.Pos || def.End != s.End {
				ps.pos, ps.end = s.Pos, s.End // keep own extraction; a mismatch shows up as disagreement below
			}
		}
		c19Specs[name] = ps
	}
}

// c19Node compares the three opinions on one node. parsed says whether the node comes from the parser.
func c19Node(n ast.Node, parsed bool, add func(sig, msg string), nontrivial func(key string)) {
	loadC19Specs()
	if c19SpecsErr != nil {
		add("C19 harness", c19SpecsErr.Error())
		return
	}
	name := astx.TypeName(n)
	spec := c19Specs[name]
	if spec == nil || spec.pos == "" || spec.end == "" {
		add("C19 no-spec "+name, "no '// pos =' / '// end =' documentation found for "+name)
		return
	}
	for _, which := range []string{"pos", "end"} {
		expr := spec.pos
		if which == "end" {
			expr = spec.end
		}
		var compiled token.Pos
		if p := callGuard(func() {
			if which == "pos" {
				compiled = n.Pos()
			} else {
				compiled = n.End()
			}
		}); p != nil {
			if parsed {
				continue // C04
			}
			add(fmt.Sprintf("C19 compiled-panics %s.%s", name, which), fmt.Sprintf("%s() panicked on a synthetic instance: %v", strings.Title(which), p))
			continue
		}
		mine, chosen, err := posx.Eval(expr, n)
		if err != nil {
			add(fmt.Sprintf("C19 spec-unparsable %s.%s", name, which), fmt.Sprintf("documented expression %q: %v", expr, err))
			continue
		}
		if strings.ContainsAny(expr, "?|+") {
			nontrivial(name + "." + which + chosen)
		}
		if mine != compiled {
			add(fmt.Sprintf("C19 compiled!=documented %s.%s", name, which),
				fmt.Sprintf("%s.%s() = %d but the documented expression %q evaluates to %d (alternative %q)", name, strings.Title(which), compiled, expr, mine, chosen))
		}
		// the repository's interpreter
		re, ok := spec.rpos, spec.rposOK
		if which == "end" {
			re, ok = spec.rend, spec.rendOK
		}
		if !ok {
			add(fmt.Sprintf("C19 poslang-cannot-parse %s.%s", name, which), fmt.Sprintf("poslang.Parse fails on %q", expr))
			continue
		}
		var theirs token.Pos
		if p := callGuard(func() { theirs = re.EvalPos(n) }); p != nil {
			if parsed {
				add(fmt.Sprintf("C19 poslang-panics %s.%s", name, which), fmt.Sprintf("poslang EvalPos panicked on a parsed node: %v", p))
			}
			continue
		}
		if theirs != compiled {
			add(fmt.Sprintf("C19 poslang!=compiled %s.%s", name, which),
				fmt.Sprintf("poslang interpreter gives %d, compiled %s() gives %d for %q", theirs, strings.Title(which), compiled, expr))
		}
	}
}

// c19Generated runs the repository's generators and compares with the checked-in files.
func c19Generated(add func(sig, msg string)) {
	repo := repoDir()
	tmp, err := os.MkdirTemp(filepath.Join(os.Getenv("VERIF_ROOT"), ".build"), "gen")
	if err != nil {
		tmp, err = os.MkdirTemp("", "gen")
		if err != nil {
			add("C19 harness", err.Error())
			return
		}
	}
	defer os.RemoveAll(tmp)
	for _, g := range []struct{ tool, file string }{{"gen-ast-pos", "pos.go"}, {"gen-ast-walk", "walk_internal.go"}} {
		out := filepath.Join(tmp, g.file)
		cmd := exec.Command("go", "run", "./tools/"+g.tool+"/main.go", "-astfile", "ast/ast.go", "-constfile", "ast/ast_const.go", "-outfile", out)
		cmd.Dir = repo
		cmd.Env = append(os.Environ(), "GOFLAGS=-mod=mod", "GOPROXY=off", "GOSUMDB=off", "GOTOOLCHAIN=local")
		if b, err := cmd.CombinedOutput(); err != nil {
			add("C19 generator-fails "+g.tool, fmt.Sprintf("%v: %s", err, trunc(string(b), 300)))
			continue
		}
		want, err1 := os.ReadFile(out)
		have, err2 := os.ReadFile(filepath.Join(repo, "ast", g.file))
		if err1 != nil || err2 != nil {
			add("C19 harness", fmt.Sprint(err1, err2))
			continue
		}
		if !bytes.Equal(want, have) {
			wl, hl := strings.Split(string(want), "\n"), strings.Split(string(have), "\n")
			line := 0
			for line < len(wl) && line < len(hl) && wl[line] == hl[line] {
				line++
			}
			w, h := "<eof>", "<eof>"
			if line < len(wl) {
				w = wl[line]
			}
			if line < len(hl) {
				h = hl[line]
			}
			add("C19 checked-in!=generated ast/"+g.file, fmt.Sprintf("first difference at line %d: generated %q, checked in %q", line+1, strings.TrimSpace(w), strings.TrimSpace(h)))
		}
	}
}

func oracleC19(ctx *harness.Ctx, cs *harness.Case) (ds []harness.Discrepancy) {
	add := func(sig, msg string) {
		ds = append(ds, harness.Discrepancy{Sig: sig, Msg: msg + " case=" + cs.Entry + " " + q(trunc(cs.Input, 160)) + " aux=" + fmt.Sprint(cs.Aux)})
	}
	nt := func(string) {}
	switch cs.Entry {
	case "generators":
		c19Generated(add)
	case "synthetic":
		seed, _ := strconv.ParseUint(cs.Aux["seed"], 10, 64)
		n := synthBuilder.Build(cs.Input, seed, 2)
		if long, _ := strconv.Atoi(cs.Aux["long"]); long > 0 {
			n = synthBuilder.BuildLong(cs.Input, seed, 2, long)
		}
		if n == nil {
			return
		}
		c19Node(n, false, add, nt)
		c19WalkFields(n, add)
		c19WalkOrder([]ast.Node{n}, false, add)
	default:
		e := entryByName[cs.Entry]
		if e == nil {
			return
		}
		o := e.Guarded(cs.Input)
		if o.Panicked {
			return
		}
		var roots []ast.Node
		for _, root := range o.Nodes {
			if isNilNode(root) {
				continue
			}
			roots = append(roots, root)
			for _, a := range astx.All(root) {
				c19Node(a.Node, true, add, nt)
			}
		}
		if len(roots) > 0 {
			c19WalkOrder(roots, e.List, add)
		}
	}
	return
}

// c19WalkOrder: the traversal of a whole tree enumerates fields and list elements in declaration order (C17's reflection model, unpruned).
func c19WalkOrder(roots []ast.Node, many bool, add func(sig, msg string)) {
	if !many {
		roots = roots[:1]
	}
	c17Check(roots, many, nil, 2, func(sig, msg string) { add("C19 walk-order: "+strings.TrimPrefix(sig, "C17 "), msg) })
}

// c19WalkFields checks, for one instance, that Walk enumerates exactly its node-typed fields in declaration order.
func c19WalkFields(n ast.Node, add func(sig, msg string)) {
	var fields []string
	depth := 0
	v := &fieldRecorder{fields: &fields, depth: &depth}
	if p := callGuard(func() { ast.Walk(n, v) }); p != nil {
		add("C19 walk-panics "+astx.TypeName(n), fmt.Sprint(p))
		return
	}
	var want []string
	for _, f := range astx.NodeFields(reflect.TypeOf(n)) {
		want = append(want, f.Name)
	}
	// walk_internal pushes the fields in reverse order, so Field() is called in reverse declaration order
	for i, j := 0, len(fields)-1; i < j; i, j = i+1, j-1 {
		fields[i], fields[j] = fields[j], fields[i]
	}
	if strings.Join(fields, ",") != strings.Join(want, ",") {
		add("C19 walk-fields "+astx.TypeName(n), fmt.Sprintf("Walk offers fields [%s], the struct declares node-typed fields [%s]", strings.Join(fields, ","), strings.Join(want, ",")))
	}
}

type fieldRecorder struct {
	fields *[]string
	depth  *int
	inner  bool
}

func (f *fieldRecorder) Visit(ast.Node) ast.Visitor {
	if f.inner {
		return nil // only the root's own fields are of interest
	}
	return f
}
func (f *fieldRecorder) VisitMany([]ast.Node) ast.Visitor { return f }
func (f *fieldRecorder) Field(name string) ast.Visitor {
	if f.inner {
		return f
	}
	*f.fields = append(*f.fields, name)
	return &fieldRecorder{fields: f.fields, depth: f.depth, inner: true}
}
func (f *fieldRecorder) Index(int) ast.Visitor { return f }

func runC19(ctx *harness.Ctx) {
	useAvoid(ctx)
	ctx.Leg("generators", func() {
		if ctx.Shard != 0 {
			return
		}
		cs := &harness.Case{Leg: "generators", Entry: "generators", Input: "go run ./tools/gen-ast-pos ./tools/gen-ast-walk"}
		ctx.Eval(2)
		ctx.Check(nil, cs, oracleC19(ctx, cs))
	})
	types := map[string]int64{}
	checkNode := func(t harness.T, cs *harness.Case, n ast.Node, parsed bool) bool {
		var ds []harness.Discrepancy
		add := func(sig, msg string) {
			ds = append(ds, harness.Discrepancy{Sig: sig, Msg: msg + " case=" + cs.Entry + " " + q(trunc(cs.Input, 160)) + " aux=" + fmt.Sprint(cs.Aux)})
		}
		c19Node(n, parsed, add, func(key string) { ctx.NonTrivial(harness.Hash(key)) })
		if !parsed {
			c19WalkFields(n, add)
		}
		types[astx.TypeName(n)]++
		ctx.Eval(1)
		return ctx.Check(t, cs, ds)
	}
	ctx.Leg("synthetic-each-type", func() {
		for i, z := range registry.All {
			if i%ctx.Of != ctx.Shard {
				continue
			}
			name := astx.TypeName(z)
			for s := uint64(1); s <= uint64(ctx.Pick(300, 3000)); s++ {
				seed := s * 0x9e3779b97f4a7c15
				n := synthBuilder.Build(name, seed, 2)
				cs := &harness.Case{Leg: "synthetic-each-type", Entry: "synthetic", Input: name, Aux: map[string]string{"seed": strconv.FormatUint(seed, 10)}}
				if !checkNode(nil, cs, n, false) {
					break
				}
			}
		}
		ctx.Exhaustive(fmt.Sprintf("every node struct of ast/ast.go (%d types) instantiated synthetically with random position fields / optional children", len(registry.All)), ctx.ViolationCount() == 0)
	})
	// one very long list per tree: `X[$]`, `X[0]` and the walk over lists of 128 / 256 / 512 / 1024 elements
	ctx.Rapid("long-lists", ctx.Pick(100, 2000), func(t *rapid.T) {
		var src, en, form string
		if rapid.IntRange(0, 4).Draw(t, "from-G") == 0 {
			c := drawGenLong(t, "", 2)
			es := entriesForKind(c.S.Kind)
			src, en, form = c.Text, es[rapid.IntRange(0, len(es)-1).Draw(t, "entry")].Name, "G-long"
		} else {
			src, en, form = drawLongListSource(t)
		}
		cs := &harness.Case{Leg: "long-lists", Entry: en, Input: src}
		ctx.Eval(1)
		ctx.Class("long-lists:" + form)
		ctx.NonTrivial(harness.Hash("long", src))
		ctx.Check(t, cs, oracleC19(ctx, cs))
	})
	ctx.Rapid("synthetic-long", ctx.Pick(150, 3000), func(t *rapid.T) {
		ti := rapid.IntRange(0, len(registry.All)-1).Draw(t, "type")
		name := astx.TypeName(registry.All[ti])
		seed := rapid.Uint64().Draw(t, "seed")
		long := rapid.SampledFrom(longListCounts).Draw(t, "long")
		cs := &harness.Case{Leg: "synthetic-long", Entry: "synthetic", Input: name, Aux: map[string]string{"seed": strconv.FormatUint(seed, 10), "long": strconv.Itoa(long)}}
		ctx.Eval(1)
		ctx.Class("synthetic-long")
		ctx.NonTrivial(harness.Hash("synthetic-long", name, cs.Aux["seed"], cs.Aux["long"]))
		ctx.Check(t, cs, oracleC19(ctx, cs))
	})
	ctx.Rapid("parsed", ctx.Pick(5000, 80000), func(t *rapid.T) {
		s := drawValid(t)
		src := s.Src
		if rapid.IntRange(0, 3).Draw(t, "mut") == 0 {
			src = mutate.Tokens(t, src, 2)
		}
		es := entriesForKind(s.Kind)
		e := es[rapid.IntRange(0, len(es)-1).Draw(t, "entry")]
		o := e.Guarded(src)
		if o.Panicked {
			return
		}
		cs := &harness.Case{Leg: "parsed", Entry: e.Name, Input: src}
		ctx.Sample(map[string]any{"leg": "parsed", "entry": e.Name, "input": q(trunc(src, 200))})
		for _, root := range o.Nodes {
			if isNilNode(root) {
				continue
			}
			for _, a := range astx.All(root) {
				if !checkNode(t, cs, a.Node, true) {
					return
				}
			}
		}
	})
	var names []any
	for k := range types {
		names = append(names, k)
	}
	ctx.SetExtra("node_types_checked", names)
}
