package props

import (
	"fmt"
	"strings"

	"github.com/cloudspannerecosystem/memefish/ast"
	"pgregory.net/rapid"

	"verif/internal/astx"
	"verif/internal/harness"
	"verif/internal/mutate"
	"verif/internal/reflex"
)

// C05 — node positions are sound: in range, ordered, nested and token-aligned.
// C06 — node positions are exact: input[Pos:End] is precisely the node's own text.

func init() {
	harness.Register(&harness.Property{
		ID: "C05", Run: runC05, Oracle: oracleC05, Minimize: true,
		Rule: "cases: accepted inputs (generator sentences, corpus, accepted mutants) for the strict clauses, any returned tree (mutants, soups, unbalanced sequences) for the weak clauses; every entry point; every node found by reflection. " +
			"Strict: 0<=Pos<End<=len, Pos is the first byte of a token and End one past the last byte of a token (boundaries from the reference lexer, plus the midpoints of '>>' and '<>'), children inside the parent, siblings ordered without overlap (CreateTable exempt). " +
			"Weak (inputs with errors): 0<=Pos<=End<=len, nesting and order. A parent is blamed only if it is wrong given its children. Non-trivial = tree with >=5 nodes; distinct by (entry, position-free AST hash).",
		Assumptions: []string{"token boundaries are those of the reference lexer (its agreement with memefish.Lexer is C14)"},
	})
	harness.Register(&harness.Property{
		ID: "C06", Run: runC06, Oracle: oracleC06,
		Rule: "cases: accepted generator sentences / corpus files whose own round trip (C01) holds; every node. (a) expression / type / query nodes: input[Pos:End] parsed alone with the matching entry point is accepted and equal to the node " +
			"(excluded: single-identifier Path, Ident that follows a '.', Ident spelled SAFE_CAST/REPLACE_FIELDS, NamedType that re-parses as a simple type); (b) every node: the input with [Pos,End) replaced by ' '+SQL()+' ' parses to a tree equal to the original. " +
			"Non-trivial = non-root node; distinct by (input, node path); node-type x parent-type pairs are reported.",
		Assumptions: []string{"inputs failing C01 are skipped (counted) so that a printing defect is not reported again as a position defect"},
	})
}

type bounds struct {
	starts, ends map[int]bool
	n            int
}

func tokenBounds(src string) (*bounds, bool) {
	toks, err := reflex.Lex(src)
	if err != nil {
		return nil, false
	}
	b := &bounds{starts: map[int]bool{}, ends: map[int]bool{}, n: len(src)}
	for _, t := range toks {
		if t.Kind == reflex.EOF {
			continue
		}
		b.starts[t.Pos] = true
		b.ends[t.End] = true
		if t.Kind == reflex.Punct && (t.Raw == ">>" || t.Raw == "<>") {
			b.starts[t.Pos+1] = true
			b.ends[t.Pos+1] = true
		}
	}
	return b, true
}

type pe struct {
	pos, end int
	ok       bool
}

func posEnd(n ast.Node) pe {
	var r pe
	if p := callGuard(func() { r.pos, r.end = int(n.Pos()), int(n.End()) }); p == nil {
		r.ok = true
	}
	return r
}

// c05Tree checks one tree. strict selects the clauses for error-free input.
func c05Tree(src string, root ast.Node, strict bool, tb *bounds, add func(sig, msg string)) {
	nodes := astx.All(root)
	ranges := make(map[ast.Node]pe, len(nodes))
	for _, a := range nodes {
		ranges[a.Node] = posEnd(a.Node)
	}
	inherited := func(n ast.Node, isEnd bool, val int) bool {
		for _, c := range astx.Children(n) {
			if c.Node == nil {
				continue
			}
			r := ranges[c.Node]
			if r.ok && ((isEnd && r.end == val) || (!isEnd && r.pos == val)) {
				return true
			}
		}
		return false
	}
	for i := len(nodes) - 1; i >= 0; i-- {
		n := nodes[i].Node
		r := ranges[n]
		if !r.ok {
			continue // C04
		}
		tn := astx.TypeName(n)
		where := fmt.Sprintf("%s at %s [%d,%d) len %d", tn, nodes[i].Path, r.pos, r.end, len(src))
		switch {
		case r.pos < 0 && !inherited(n, false, r.pos):
			add("C05 pos<0 "+tn, where)
		case r.end < 0 && !inherited(n, true, r.end):
			add("C05 end<0 "+tn, where)
		case r.end > len(src) && !inherited(n, true, r.end):
			add("C05 end>len "+tn, where)
		case r.pos >= 0 && r.end >= 0 && (r.pos > r.end || (strict && r.pos == r.end)) && !inherited(n, true, r.end) && !inherited(n, false, r.pos):
			add("C05 pos>=end "+tn, where)
		}
		if strict && tb != nil && r.pos >= 0 && r.end <= len(src) {
			if !tb.starts[r.pos] && !inherited(n, false, r.pos) {
				add("C05 pos-not-token-start "+tn, where+" text="+q(trunc(src[r.pos:], 20)))
			}
			if r.end >= 0 && !tb.ends[r.end] && !inherited(n, true, r.end) {
				add("C05 end-not-token-end "+tn, where+" text before end="+q(trunc(src[max(0, r.end-10):r.end], 20)))
			}
		}
		// children
		_, isCreateTable := n.(*ast.CreateTable)
		lastEnd := -1
		lastStep := ""
		for _, c := range astx.Children(n) {
			if c.Node == nil {
				continue
			}
			cr := ranges[c.Node]
			if !cr.ok || cr.pos < 0 || cr.end < 0 {
				continue
			}
			if (cr.pos < r.pos || cr.end > r.end) && r.pos >= 0 && r.end >= 0 {
				add(fmt.Sprintf("C05 child-outside-parent %s.%s", tn, c.Field), fmt.Sprintf("%s: child %s [%d,%d) is not inside", where, c.Step(), cr.pos, cr.end))
			}
			if !isCreateTable && cr.pos < lastEnd {
				add(fmt.Sprintf("C05 sibling-order %s.%s", tn, c.Field), fmt.Sprintf("%s: child %s starts at %d before the end %d of %s", where, c.Step(), cr.pos, lastEnd, lastStep))
			}
			if cr.end > lastEnd {
				lastEnd = cr.end
				lastStep = c.Step()
			}
		}
	}
}

func oracleC05(ctx *harness.Ctx, cs *harness.Case) (ds []harness.Discrepancy) {
	add := func(sig, msg string) {
		ds = append(ds, harness.Discrepancy{Sig: sig, Msg: msg + " entry=" + cs.Entry + " input=" + q(trunc(cs.Input, 200))})
	}
	e := entryByName[cs.Entry]
	if e == nil {
		return
	}
	o := e.Guarded(cs.Input)
	if o.Panicked {
		return
	}
	strict := o.Err == nil
	var tb *bounds
	if strict {
		tb, _ = tokenBounds(cs.Input)
	}
	for _, root := range o.Nodes {
		if !isNilNode(root) {
			c05Tree(cs.Input, root, strict, tb, add)
		}
	}
	return
}

func runC05(ctx *harness.Ctx) {
	useAvoid(ctx)
	types := map[string]int64{}
	one := func(t harness.T, leg string, e *Entry, src string) {
		cs := &harness.Case{Leg: leg, Entry: e.Name, Input: src}
		ctx.Eval(1)
		o := e.Guarded(src)
		if o.Panicked {
			return
		}
		if o.Err == nil {
			ctx.Class("accepted")
		} else {
			ctx.Class("with-errors")
		}
		n := 0
		var dump strings.Builder
		for _, r := range o.Nodes {
			if !isNilNode(r) {
				for _, a := range astx.All(r) {
					types[astx.TypeName(a.Node)]++
					n++
				}
				dump.WriteString(astx.Dump(r, false))
			}
		}
		if n >= 5 {
			ctx.NonTrivial(harness.Hash(e.Name, dump.String()))
		}
		ctx.Check(t, cs, oracleC05(ctx, cs))
	}
	ctx.Leg("corpus", func() {
		for i, c := range corpus() {
			if i%ctx.Of != ctx.Shard {
				continue
			}
			for _, e := range entriesForKind(c.Kind) {
				one(nil, "corpus", e, c.Src)
			}
		}
	})
	ctx.Rapid("generated", ctx.Pick(10000, 80000), func(t *rapid.T) {
		c := drawGen(t, "", drawDepth(t))
		es := entriesForKind(c.S.Kind)
		e := es[rapid.IntRange(0, len(es)-1).Draw(t, "entry")]
		ctx.Sample(map[string]any{"leg": "generated", "input": q(trunc(c.Text, 300))})
		if fp := farPrefix(t, 120, false); fp != "" {
			ctx.Class("far-offset")
			one(t, "generated", e, fp+c.Text) // every position beyond 2^15 / 2^16 / 2^17
			return
		}
		one(t, "generated", e, c.Text)
	})
	ctx.Rapid("generated-relaxed", ctx.Pick(5000, 40000), func(t *rapid.T) {
		c := drawGenRelaxed(t, "", drawDepth(t))
		es := entriesForKind(c.S.Kind)
		e := es[rapid.IntRange(0, len(es)-1).Draw(t, "entry")]
		one(t, "generated-relaxed", e, c.Text)
	})
	ctx.Rapid("quoted-pseudo-keyword", ctx.Pick(4000, 60000), func(t *rapid.T) {
		c, ok := drawGenQuotedPKW(t, "", rapid.SampledFrom([]int{1, 2, 2}).Draw(t, "depth"))
		if !ok {
			return
		}
		es := entriesForKind(c.S.Kind)
		one(t, "quoted-pseudo-keyword", es[rapid.IntRange(0, len(es)-1).Draw(t, "entry")], c.Text)
	})
	ctx.Rapid("generated-long", ctx.Pick(300, 6000), func(t *rapid.T) {
		c := drawGenLong(t, "", 2)
		es := entriesForKind(c.S.Kind)
		one(t, "generated-long", es[rapid.IntRange(0, len(es)-1).Draw(t, "entry")], c.Text)
	})
	ctx.Leg("size-sweep", func() {
		forSweep(ctx, func(entry, src string, n int) bool {
			if n%3 == 0 || n > 250 { // positions: every third size, and all sizes near the top
				one(nil, "size-sweep", entryByName[entry], src)
			}
			return ctx.ViolationCount() < 6
		})
	})
	ctx.Leg("size-sweep-2d", func() {
		forSweep2(ctx, func(entry, src string, a, b int) bool {
			one(nil, "size-sweep-2d", entryByName[entry], src)
			return ctx.ViolationCount() < 6
		})
	})
	ctx.Rapid("generated-list", ctx.Pick(1000, 20000), func(t *rapid.T) {
		n := rapid.IntRange(2, 3).Draw(t, "n")
		var parts []string
		for i := 0; i < n; i++ {
			parts = append(parts, drawGen(t, rapid.SampledFrom([]string{"query", "ddl", "dml"}).Draw(t, "k"), 2).Text)
		}
		one(t, "generated-list", entryByName["ParseStatements"], strings.Join(parts, "\n;"))
	})
	ctx.Rapid("mutant", ctx.Pick(10000, 80000), func(t *rapid.T) {
		s := drawValid(t)
		src := mutate.Tokens(t, s.Src, 2)
		es := entriesForKind(s.Kind)
		e := es[rapid.IntRange(0, len(es)-1).Draw(t, "entry")]
		one(t, "mutant", e, src)
	})
	ctx.Rapid("clause-permutations", ctx.Pick(2500, 50000), func(t *rapid.T) {
		src, kind := drawClausePermutation(t)
		es := entriesForKind(kind)
		one(t, "clause-permutations", es[rapid.IntRange(0, len(es)-1).Draw(t, "entry")], src)
	})
	ctx.Rapid("unbalanced", ctx.Pick(3000, 50000), func(t *rapid.T) {
		n := rapid.IntRange(1, 14).Draw(t, "n")
		var b strings.Builder
		for i := 0; i < n; i++ {
			b.WriteString(rapid.SampledFrom(unbalancedParts).Draw(t, "part"))
			b.WriteString(" ")
		}
		for _, e := range drawEntries(t, "", 2) {
			one(t, "unbalanced", e, b.String())
		}
	})
	var names []any
	for k := range types {
		names = append(names, k)
	}
	ctx.SetExtra("node_types_seen", names)
}

// ---------------------------------------------------------------- C06

func c01Holds(e *Entry, src string) bool {
	o := e.Guarded(src)
	if o.Panicked || o.Err != nil {
		return false
	}
	for _, root := range o.Nodes {
		se, ex := subEntry(root)
		if e.Kind == "ddl" || e.Kind == "dml" || e.Name == "ParseQuery" {
			se, ex = entryByName[map[string]string{"ddl": "ParseDDL", "dml": "ParseDML", "query": "ParseQuery"}[e.Kind]], func(x ast.Node) ast.Node { return x }
		}
		if se == nil {
			return false
		}
		if k, _ := roundTrip(se, ex, root); k != "" {
			return false
		}
	}
	return true
}

func oracleC06(ctx *harness.Ctx, cs *harness.Case) (ds []harness.Discrepancy) {
	src := cs.Input
	add := func(sig, msg string) {
		ds = append(ds, harness.Discrepancy{Sig: sig, Msg: msg + " entry=" + cs.Entry + " input=" + q(trunc(src, 300))})
	}
	e := entryByName[cs.Entry]
	if e == nil || e.List {
		return
	}
	if !c01Holds(e, src) {
		return
	}
	o := e.Guarded(src)
	root := o.Nodes[0]
	nodes := astx.All(root)
	prevIsDot := map[int]bool{}
	if toks, err := reflex.Lex(src); err == nil {
		for k := 1; k < len(toks); k++ {
			if toks[k-1].Kind == reflex.Punct && toks[k-1].Raw == "." {
				prevIsDot[toks[k].Pos] = true
			}
		}
	}
	failedB := map[ast.Node]pe{}
	for i := len(nodes) - 1; i >= 0; i-- {
		a := nodes[i]
		n := a.Node
		r := posEnd(n)
		if !r.ok || r.pos < 0 || r.end > len(src) || r.pos > r.end {
			if r.ok {
				// input[Pos:End] does not even exist; ancestors sharing the bad bound are not blamed again
				inherited := false
				for _, c := range astx.Children(n) {
					if cr, bad := failedB[c.Node]; bad && (cr.end == r.end || cr.pos == r.pos) {
						inherited = true
					}
				}
				failedB[n] = r
				if !inherited {
					add("C06 range-not-sliceable "+astx.TypeName(n), fmt.Sprintf("%s at %s has range [%d,%d) on an input of %d bytes", astx.TypeName(n), a.Path, r.pos, r.end, len(src)))
				}
			}
			continue
		}
		// a node whose Pos or End is inherited from a child that already failed is not blamed again
		inherits := false
		for _, c := range astx.Children(n) {
			if cr, bad := failedB[c.Node]; bad && (cr.end == r.end || cr.pos == r.pos) {
				inherits = true
			}
		}
		if inherits {
			failedB[n] = r
			continue
		}
		tn := astx.TypeName(n)
		slice := src[r.pos:r.end]
		// (a)
		if i > 0 {
			if se, ex := subEntry(n); se != nil && c06aApplies(n, slice, prevIsDot[r.pos]) {
				if _, isStmt := n.(ast.Statement); !isStmt {
					so := se.Guarded(slice)
					switch {
					case so.Panicked:
					case so.Err != nil:
						failedB[n] = r
						add("C06a slice-rejected "+tn, fmt.Sprintf("%s at %s: input[%d:%d] = %s does not parse alone: %v", tn, a.Path, r.pos, r.end, q(trunc(slice, 120)), so.Err))
					default:
						got := ex(so.Nodes[0])
						if st, ok := got.(*ast.SimpleType); ok {
							if _, isNamed := n.(*ast.NamedType); isNamed {
								_ = st
								break
							}
						}
						if d := astx.Equal(n, got); d != "" {
							add("C06a slice-differs "+tn, fmt.Sprintf("%s at %s: input[%d:%d] = %s parses alone to a different tree: %s", tn, a.Path, r.pos, r.end, q(trunc(slice, 120)), d))
						}
					}
				}
			}
		}
		// (b)
		var sql string
		if p := callGuard(func() { sql = n.SQL() }); p != nil {
			continue
		}
		repl := src[:r.pos] + " " + sql + " " + src[r.end:]
		ro := e.Guarded(repl)
		switch {
		case ro.Panicked:
		case ro.Err != nil:
			failedB[n] = r
			add("C06b replaced-rejected "+tn, fmt.Sprintf("%s at %s [%d,%d): replacing the range by SQL() gives %s which is rejected: %v", tn, a.Path, r.pos, r.end, q(trunc(repl, 200)), ro.Err))
		default:
			if d := astx.Equal(root, ro.Nodes[0]); d != "" {
				failedB[n] = r
				add("C06b replaced-differs "+tn, fmt.Sprintf("%s at %s [%d,%d): replacing the range by SQL() gives %s which parses differently: %s", tn, a.Path, r.pos, r.end, q(trunc(repl, 200)), d))
			}
		}
	}
	return
}

// c06aApplies implements the exclusions of clause (a).
func c06aApplies(n ast.Node, slice string, afterDot bool) bool {
	switch x := n.(type) {
	case *ast.Path:
		if len(x.Idents) == 1 {
			return false
		}
	case *ast.Ident:
		if afterDot {
			return false
		}
		up := strings.ToUpper(slice)
		if up == "SAFE_CAST" || up == "REPLACE_FIELDS" {
			return false
		}
	}
	return true
}

func runC06(ctx *harness.Ctx) {
	useAvoid(ctx)
	pairs := map[string]int64{}
	one := func(t harness.T, leg string, e *Entry, src string) {
		cs := &harness.Case{Leg: leg, Entry: e.Name, Input: src}
		if !c01Holds(e, src) {
			ctx.Class("skipped:not-accepted-or-C01-fails")
			return
		}
		o := e.Guarded(src)
		all := astx.All(o.Nodes[0])
		ctx.Eval(int64(len(all)))
		h := harness.Hash(src)
		for i, a := range all {
			if i > 0 {
				ctx.NonTrivial(h ^ harness.Hash(a.Path))
				pairs[astx.TypeName(a.Node)+"<"+astx.TypeName(a.Parent)]++
			}
		}
		ctx.Check(t, cs, oracleC06(ctx, cs))
	}
	ctx.Leg("corpus", func() {
		for i, c := range corpusGood() {
			if i%ctx.Of != ctx.Shard {
				continue
			}
			one(nil, "corpus", entryByName[c.Entry], c.Src)
		}
	})
	ctx.Rapid("generated", ctx.Pick(2500, 40000), func(t *rapid.T) {
		c := drawGen(t, "", rapid.SampledFrom([]int{1, 2, 2, 3}).Draw(t, "depth"))
		if len(c.Text) > 600 {
			return
		}
		ctx.Sample(map[string]any{"leg": "generated", "input": q(trunc(c.Text, 300))})
		one(t, "generated", specificEntry(c.S.Kind), c.Text)
	})
	// accepted inputs that are not sentences of G: relaxed sentences, one pseudo keyword back-quoted, token / clause-order mutants
	// (what the parser accepts beyond the documentation still has to have exact ranges)
	ctx.Rapid("generated-relaxed", ctx.Pick(800, 15000), func(t *rapid.T) {
		c := drawGenRelaxed(t, "", rapid.SampledFrom([]int{1, 2, 2}).Draw(t, "depth"))
		if len(c.Text) > 600 {
			return
		}
		one(t, "generated-relaxed", specificEntry(c.S.Kind), c.Text)
	})
	ctx.Rapid("quoted-pseudo-keyword", ctx.Pick(2500, 40000), func(t *rapid.T) {
		c, ok := drawGenQuotedPKW(t, "", rapid.SampledFrom([]int{1, 2, 2}).Draw(t, "depth"))
		if !ok || len(c.Text) > 600 {
			return
		}
		one(t, "quoted-pseudo-keyword", specificEntry(c.S.Kind), c.Text)
	})
	ctx.Rapid("mutant", ctx.Pick(2500, 40000), func(t *rapid.T) {
		s := drawValid(t)
		if len(s.Src) > 600 {
			return
		}
		src := mutate.Tokens(t, s.Src, 1)
		one(t, "mutant", specificEntry(s.Kind), src)
	})
	ctx.Rapid("clause-permutations", ctx.Pick(4000, 60000), func(t *rapid.T) {
		src, kind := drawClausePermutation(t)
		if len(src) > 600 {
			return
		}
		one(t, "clause-permutations", specificEntry(kind), src)
	})
	var pl []any
	for k := range pairs {
		pl = append(pl, k)
	}
	ctx.SetExtra("node_parent_type_pairs", pl)
}
