package props

import (
	"fmt"
	"os"
	"reflect"
	"strconv"
	"strings"
	"sync"

	"github.com/cloudspannerecosystem/memefish"
	"github.com/cloudspannerecosystem/memefish/ast"
	"github.com/cloudspannerecosystem/memefish/token"
	"pgregory.net/rapid"

	"verif/internal/astx"
	"verif/internal/harness"
	"verif/internal/mutate"
)

// C18 — parsing is a pure function: deterministic, re-entrant, input-independent state.

func init() {
	harness.Register(&harness.Property{
		ID: "C18", Run: runC18, Oracle: oracleC18,
		Rule: "cases: batches of 8-48 inputs (generator sentences, corpus files, mutants with errors) x the 9 parser entry points + SplitRawStatements + Lexer; orders and goroutine counts are rapid draws. " +
			"Reference results (position-full tree dump, SQL() text, full error list with messages and positions, split pieces, token kinds) are computed once sequentially; then the same calls (i) in a shuffled order, (ii) repeated, " +
			"(iii) concurrently from 4-16 goroutines released by a barrier in a binary built with -race, and (iv) after every string / byte-slice field of a previously returned AST was overwritten by reflection, must give identical results and no race report. " +
			"Non-trivial = batch with >=2 distinct inputs, >=1 of them with errors, run on >=4 goroutines; distinct by hash of the batch.",
		Assumptions: []string{
			"the Go scheduler is not controlled: the searched dimension is the inputs that reach shared state; unsynchronised conflicting accesses are reported by the race detector whenever both occur in a run, regardless of timing",
		},
	})
}

// c18Out keeps what one call returned (the objects themselves, so that they can be rendered again later).
type c18Out struct {
	entry  string
	pieces []*memefish.RawStatement
	toks   []token.Token
	err    error
	o      Outcome
}

func c18Run(entry, src string) *c18Out {
	r := &c18Out{entry: entry}
	switch entry {
	case entrySplit:
		r.pieces, r.err = safeSplit(src)
	case entryLex:
		r.toks, r.err = safeLex(src)
	default:
		r.o = entryByName[entry].Unwatched(src)
	}
	return r
}

// render renders everything observable of the retained result.
func (r *c18Out) render() string {
	var b strings.Builder
	switch r.entry {
	case entrySplit:
		for _, p := range r.pieces {
			fmt.Fprintf(&b, "[%d,%d)%q;", p.Pos, p.End, p.Statement)
		}
		fmt.Fprintf(&b, "err=%v", r.err)
	case entryLex:
		for _, t := range r.toks {
			fmt.Fprintf(&b, "%s@%d:%q ", t.Kind, t.Pos, t.AsString)
		}
		fmt.Fprintf(&b, "err=%v", r.err)
	default:
		o := r.o
		if o.Panicked {
			return fmt.Sprintf("panic:%v", o.PanicVal)
		}
		for _, n := range o.Nodes {
			if isNilNode(n) {
				b.WriteString("<nil>;")
				continue
			}
			b.WriteString(astx.Dump(n, true))
			var sql string
			if p := callGuard(func() { sql = n.SQL() }); p != nil {
				sql = fmt.Sprintf("panic:%v", p)
			}
			b.WriteString("|" + sql + "|")
			cnt := 0
			_ = callGuard(func() { ast.Inspect(n, func(ast.Node) bool { cnt++; return true }) })
			fmt.Fprintf(&b, "#%d;", cnt)
		}
		if me, ok := o.Err.(memefish.MultiError); ok {
			b.WriteString("errors:" + me.FullError())
		} else if o.Err != nil {
			b.WriteString("error:" + o.Err.Error())
		}
	}
	return b.String()
}

// c18Result renders everything observable of one call.
func c18Result(entry, src string) string { return c18Run(entry, src).render() }

// scramble overwrites every string and byte slice reachable in the tree (aliasing probe).
func scramble(n ast.Node) {
	seen := map[uintptr]bool{}
	var rec func(v reflect.Value, depth int)
	rec = func(v reflect.Value, depth int) {
		if !v.IsValid() || depth > 5000 {
			return
		}
		switch v.Kind() {
		case reflect.Ptr:
			if v.IsNil() || seen[v.Pointer()] {
				return
			}
			seen[v.Pointer()] = true
			rec(v.Elem(), depth+1)
		case reflect.Interface:
			if !v.IsNil() {
				rec(v.Elem(), depth+1)
			}
		case reflect.Struct:
			for i := 0; i < v.NumField(); i++ {
				if v.Type().Field(i).IsExported() {
					rec(v.Field(i), depth+1)
				}
			}
		case reflect.Slice:
			if v.Type().Elem().Kind() == reflect.Uint8 {
				for i := 0; i < v.Len(); i++ {
					v.Index(i).SetUint(0xAA)
				}
				return
			}
			for i := 0; i < v.Len(); i++ {
				rec(v.Index(i), depth+1)
			}
		case reflect.String:
			if v.CanSet() {
				v.SetString("SCRAMBLED")
			}
		case reflect.Int:
			if v.CanSet() {
				v.SetInt(-7)
			}
		}
	}
	rec(reflect.ValueOf(n), 0)
}

func decodeBatch(s string) []string {
	var out []string
	for _, ln := range strings.Split(s, "\n") {
		if ln == "" {
			continue
		}
		if u, err := strconv.Unquote(ln); err == nil {
			out = append(out, u)
		}
	}
	return out
}

func encodeBatch(in []string) string {
	var b strings.Builder
	for _, s := range in {
		b.WriteString(strconv.Quote(s))
		b.WriteString("\n")
	}
	return b.String()
}

type c18Call struct{ entry, src string }

func oracleC18(ctx *harness.Ctx, cs *harness.Case) (ds []harness.Discrepancy) {
	add := func(sig, msg string) { ds = append(ds, harness.Discrepancy{Sig: sig, Msg: msg}) }
	inputs := decodeBatch(cs.Input)
	gor, _ := strconv.Atoi(cs.Aux["goroutines"])
	if gor < 1 {
		gor = 4
	}
	rot, _ := strconv.Atoi(cs.Aux["rotate"])
	var calls []c18Call
	for _, in := range inputs {
		for _, e := range c03Entries {
			calls = append(calls, c18Call{e, in})
		}
	}
	if len(calls) == 0 {
		return
	}
	precommit := func() func() {
		path := os.Getenv("VERIF_CURFILE")
		if path == "" {
			return func() {}
		}
		cc := cs.Clone()
		cc.Property = "C18"
		cc.InputQ = strconv.Quote(cc.Input)
		cc.Sigs = []string{"C18 data race"}
		cc.Message = "the race detector reported a data race while this batch ran concurrently"
		writeCaseFile(path, cc)
		return func() { os.Remove(path) }
	}
	runConcurrently := func(idx []int) map[int]string {
		done := precommit()
		defer done()
		res := make([]string, len(idx))
		var wg sync.WaitGroup
		start := make(chan struct{})
		for g := 0; g < gor; g++ {
			wg.Add(1)
			go func(g int) {
				defer wg.Done()
				<-start
				for k := g; k < len(idx); k += gor {
					res[k] = c18Result(calls[idx[k]].entry, calls[idx[k]].src)
				}
			}(g)
		}
		close(start)
		wg.Wait()
		out := map[int]string{}
		for k, i := range idx {
			out[i] = res[k]
		}
		return out
	}
	// (iii-a) cold start: the second half of the batch runs concurrently BEFORE anything was parsed sequentially,
	// so lazily initialised shared state (caches, tables built on first use) is first touched under concurrency
	var cold []int
	for i := range calls {
		if i >= len(calls)/2 || cs.Aux["cold"] == "all" {
			cold = append(cold, i)
		}
	}
	coldGot := runConcurrently(cold)
	ref := make([]string, len(calls))
	retained := make([]*c18Out, len(calls))
	for i, c := range calls {
		retained[i] = c18Run(c.entry, c.src)
		ref[i] = retained[i].render()
	}
	check := func(phase string, i int, got string) {
		if got != ref[i] {
			add(fmt.Sprintf("C18 result-differs %s %s", phase, calls[i].entry),
				fmt.Sprintf("%s(%s) gave a different result in phase %q: first %s, then %s", calls[i].entry, q(trunc(calls[i].src, 80)), phase, trunc(ref[i], 160), trunc(got, 160)))
		}
	}
	// (i) other orders: rotation + reversal, and a pseudo-random permutation derived from `rot` (what a call finds in any
	// shared state depends on its predecessors - several different predecessor sets per call)
	for k := range calls {
		i := (len(calls) - 1 - k + rot) % len(calls)
		check("reordered", i, c18Result(calls[i].entry, calls[i].src))
	}
	for round := 0; round < 1 && len(ds) == 0; round++ {
		perm := make([]int, len(calls))
		for i := range perm {
			perm[i] = i
		}
		x := uint64(rot)*2654435761 + uint64(round)*40503 + 12345
		for i := len(perm) - 1; i > 0; i-- {
			x = x*6364136223846793005 + 1442695040888963407
			j := int((x >> 33) % uint64(i+1))
			perm[i], perm[j] = perm[j], perm[i]
		}
		for _, i := range perm {
			check("reordered", i, c18Result(calls[i].entry, calls[i].src))
		}
	}
	// (iv-a) retention: the objects returned by the first run (trees, error lists with their positions and excerpts), rendered
	// again after all the later calls, must still say what they said - a later parse must not reach into an earlier result
	for i := range calls {
		if got := retained[i].render(); got != ref[i] {
			add(fmt.Sprintf("C18 retained-result-changed %s", calls[i].entry),
				fmt.Sprintf("the result returned by %s(%s) reads differently after later calls: first %s, now %s", calls[i].entry, q(trunc(calls[i].src, 80)), trunc(ref[i], 200), trunc(got, 200)))
			break
		}
	}
	// (iv) aliasing: scramble returned trees, then parse again
	for _, in := range inputs {
		for _, e := range entries {
			o := e.Guarded(in)
			if o.Panicked {
				continue
			}
			for _, n := range o.Nodes {
				if !isNilNode(n) {
					scramble(n)
				}
			}
		}
	}
	for i, c := range calls {
		check("after-scrambling-earlier-results", i, c18Result(c.entry, c.src))
	}
	if len(ds) > 0 {
		return
	}
	for i, g := range coldGot {
		check("concurrent-cold-start", i, g)
	}
	// (iii-b) concurrently again, everything, including identical inputs in flight on several goroutines
	var all []int
	for i := range calls {
		all = append(all, i)
	}
	for k := 0; k < len(calls) && k < 60; k++ {
		all = append(all, (k*7)%len(calls))
	}
	for i, g := range runConcurrently(all) {
		check("concurrent", i, g)
	}
	return
}

func writeCaseFile(path string, c *harness.Case) {
	b := fmt.Sprintf("{\n  \"property\": %q,\n  \"leg\": %q,\n  \"input_go_quoted\": %q,\n  \"aux\": {\"goroutines\": %q, \"rotate\": %q},\n  \"signatures\": [%q],\n  \"message\": %q\n}\n",
		c.Property, c.Leg, c.InputQ, c.Aux["goroutines"], c.Aux["rotate"], c.Sigs[0], c.Message)
	_ = os.WriteFile(path, []byte(b), 0o644)
}

func runC18(ctx *harness.Ctx) {
	useAvoid(ctx)
	// cold sweep: the very first thing this process does with the library is to run a broad batch (every statement
	// family, expressions, types, mutants) concurrently, so that state initialised lazily on first use of a feature
	// is first touched by several goroutines at once.
	ctx.Rapid("cold-sweep", 1, func(t *rapid.T) {
		var inputs []string
		for i := 0; i < 260; i++ {
			var c GenCase
			if i%5 == 4 {
				c = drawGenRelaxed(t, "", 2)
			} else {
				c = drawGen(t, []string{"query", "expr", "type", "dml", "ddl", "call", "expr", "query"}[i%8], 2)
			}
			src := c.Text
			if i%7 == 6 {
				src = mutate.Tokens(t, src, 2)
			}
			if len(src) > 1200 {
				src = src[:1200]
			}
			inputs = append(inputs, src)
		}
		vs := errorSiteVariants()
		inputs = append(inputs, vs[:len(vs)-len(sizeProbeInputs)]...) // every special error site and the type-position matrix, first met concurrently (the size probes are too slow under the race detector)
		// feature-rich fixed inputs, each twice and through query / statement / list entry points, so that every lazily initialised
		// piece of state has at least two goroutines reaching it first (what the drawn sentences happen to contain varies by seed)
		rich := []string{
			"SELECT arr[OFFSET(1)], arr[SAFE_ORDINAL(2)], m[k], s.f.g, CAST(x AS ARRAY<STRUCT<a INT64, b STRING(MAX)>>), SAFE_CAST(y AS NUMERIC), DATE '2024-01-02', TIMESTAMP \"t\", JSON '{}', NUMERIC '1', INTERVAL 1 DAY, " +
				"CASE WHEN a THEN b ELSE c END, EXTRACT(DAY FROM d), STRUCT(1 AS a), [1, 2], ARRAY(SELECT 1), EXISTS(SELECT 1), IF(a, b, c), a NOT BETWEEN 1 AND 2, a NOT IN UNNEST(b), a IS NOT TRUE, -a, ~b, a || b, f(x => 1), " +
				"COUNT(DISTINCT x IGNORE NULLS), NEW p.M(1 AS f), NEW p.M {a: 1, b {c: 2}}, WITH(v AS 1, v + 1), REPLACE_FIELDS(m, 1 AS a.b), (a, b).x, @p, r'\\d', b\"\\x00\", 0x1F, 1.5e3, .5 " +
				"FROM t1@{FORCE_INDEX=i} AS a TABLESAMPLE BERNOULLI (10 PERCENT) LEFT OUTER HASH JOIN t2 USING (k) CROSS JOIN UNNEST(arr) AS u WITH OFFSET AS o, f(TABLE t, MODEL m, 1) " +
				"WHERE x LIKE 'a%' GROUP BY 1 HAVING TRUE ORDER BY 1 DESC NULLS LAST LIMIT 10 OFFSET @o",
			"WITH c AS (SELECT 1 UNION ALL (SELECT 2 INTERSECT DISTINCT SELECT 3)) SELECT AS STRUCT * EXCEPT (a) REPLACE (1 AS b) FROM c |> WHERE TRUE |> SELECT x |> LIMIT 1",
			"@{a=1} SELECT * FROM (SELECT 1) FOR UPDATE",
			"CREATE TABLE IF NOT EXISTS s.t (a INT64 NOT NULL DEFAULT (1) OPTIONS (x = 1), b STRING(MAX) AS (CAST(a AS STRING)) STORED HIDDEN, c ARRAY<FLOAT32>(vector_length=>3), d TOKENLIST AS (TOKENIZE_FULLTEXT(b)) HIDDEN, " +
				"e INT64 GENERATED BY DEFAULT AS IDENTITY (BIT_REVERSED_POSITIVE), CONSTRAINT fk FOREIGN KEY (a) REFERENCES u (a) ON DELETE CASCADE NOT ENFORCED, CHECK (a > 0), SYNONYM (syn)) PRIMARY KEY (a DESC), INTERLEAVE IN PARENT p ON DELETE NO ACTION, ROW DELETION POLICY (OLDER_THAN(ts, INTERVAL 1 DAY))",
			"ALTER TABLE t ADD COLUMN IF NOT EXISTS c BYTES(10), ALTER COLUMN d SET OPTIONS (x = NULL)", "ALTER TABLE t ALTER COLUMN c ALTER IDENTITY SET SKIP RANGE 1, 2",
			"CREATE UNIQUE NULL_FILTERED INDEX i ON t (a DESC, b) STORING (c), INTERLEAVE IN p", "CREATE SEARCH INDEX i ON t (a) PARTITION BY b ORDER BY c OPTIONS (x = 1)", "CREATE VECTOR INDEX i ON t (a) WHERE a IS NOT NULL OPTIONS (distance_type = 'COSINE')",
			"CREATE CHANGE STREAM s FOR t1(a, b), t2(), t3 OPTIONS (retention_period = '1d')", "CREATE SEQUENCE IF NOT EXISTS s BIT_REVERSED_POSITIVE SKIP RANGE 1, 2 START COUNTER WITH 3", "ALTER SEQUENCE s SET OPTIONS (x = 1)",
			"CREATE OR REPLACE VIEW v SQL SECURITY DEFINER AS SELECT 1", "CREATE MODEL m INPUT (a INT64) OUTPUT (b FLOAT64) REMOTE OPTIONS (endpoint = 'e')", "GRANT SELECT(a), INSERT, UPDATE(b), DELETE ON TABLE t TO ROLE r",
			"CREATE PROPERTY GRAPH g NODE TABLES (n KEY (id) LABEL l PROPERTIES (a AS b) DEFAULT LABEL NO PROPERTIES) EDGE TABLES (e SOURCE KEY (s) REFERENCES n (id) DESTINATION KEY (d) REFERENCES n (id))",
			"CREATE PROTO BUNDLE (a.B, c)", "ALTER PROTO BUNDLE INSERT (a.B) UPDATE (c) DELETE (d)", "CREATE LOCALITY GROUP g OPTIONS (x = 1)", "ALTER DATABASE d SET OPTIONS (x = 1)", "ANALYZE", "DROP TABLE IF EXISTS t", "RENAME TABLE a TO b, c TO d",
			"INSERT OR UPDATE INTO t (a, b) VALUES (1, DEFAULT), (2, (SELECT 3)) THEN RETURN WITH ACTION AS act *", "UPDATE t AS x SET x.a = 1, b = DEFAULT WHERE TRUE THEN RETURN a", "DELETE FROM t WHERE a IN (SELECT 1) ASSERT_ROWS_MODIFIED 1",
			"CALL p.q(1, TABLE t, a => 2)",
		}
		for _, r := range rich {
			inputs = append(inputs, r, "SELECT 1", r)
		}
		inputs = append(inputs, ".5 + x", "a b", "(1))", "arr[OFFSET(1)]", "t.arr[ordinal(2)][i]", "'\\u00e9' || `a\\u0062`", "SELECT 1; \x00")
		cs := &harness.Case{Leg: "cold-sweep", Input: encodeBatch(inputs), Aux: map[string]string{"goroutines": "16", "rotate": "3", "cold": "all"}}
		ctx.Eval(int64(len(inputs) * len(c03Entries)))
		ctx.NonTrivial(harness.Hash(cs.Input))
		ctx.Check(t, cs, oracleC18(ctx, cs))
	})
	ctx.Rapid("batches", ctx.Pick(50, 450), func(t *rapid.T) {
		n := rapid.IntRange(8, 48).Draw(t, "n")
		var inputs []string
		withErr := 0
		for i := 0; i < n; i++ {
			var s string
			lim := 1500
			switch rapid.IntRange(0, 19).Draw(t, "kind") % 7 {
			case 6:
				// rarely (2 of 20 draws: 6 and 13): one long list or many lines - state that grows with the input
				lim = 3500
				if rapid.Bool().Draw(t, "many-lines") {
					s, _ = drawManyLines(t)
				} else {
					s, _, _ = drawLongListSource(t)
				}
			case 0:
				s = mutate.Soup(t, 16)
				withErr++
			case 1, 2:
				b, _ := drawSentence(t)
				s = mutate.Tokens(t, b, 2)
				withErr++
			default:
				s = drawValid(t).Src
			}
			if len(s) > lim {
				s = s[:lim]
			}
			// inputs whose FIRST token is lexed differently depending on leftover lexer state
			if rapid.IntRange(0, 7).Draw(t, "dotlead") == 0 {
				s = rapid.SampledFrom([]string{".5 + ", ".5", ".5 * (", ".25e1 - "}).Draw(t, "dot") + s
			}
			inputs = append(inputs, s)
		}
		// special error sites, each at two different positions (an error object shared between calls shows as a changed earlier result)
		if rapid.IntRange(0, 3).Draw(t, "error-sites") == 0 {
			vs := errorSiteVariants()
			for k := rapid.IntRange(1, 3).Draw(t, "n-sites"); k > 0; k-- {
				i := rapid.IntRange(0, len(errorSiteInputs)-1).Draw(t, "site") * 4
				inputs = append(inputs, vs[i], vs[i+1+rapid.IntRange(0, 2).Draw(t, "variant")])
				withErr++
			}
			ctx.Class("batch-with-error-site-pair")
		}
		// twins: two different long inputs (>= 4 KiB) of exactly the same length, line breaks at different offsets, both with an
		// error near the end (state keyed by something weaker than the content: length, path, a prefix ...)
		if rapid.IntRange(0, 23).Draw(t, "twins") == 0 {
			n := rapid.IntRange(1030, 1100).Draw(t, "twin-elements")
			var a, b strings.Builder
			a.WriteString("SELECT ")
			b.WriteString("SELECT\n")
			brk := rapid.IntRange(1, n-1).Draw(t, "twin-break")
			for i := 0; i < n; i++ {
				a.WriteString("1 + ")
				if i == brk {
					b.WriteString("1 +\n")
				} else {
					b.WriteString("1 + ")
				}
			}
			tail := rapid.SampledFrom([]string{"1\n) -- tail", ")", "1 1", "'x", "1 +"}).Draw(t, "twin-tail")
			ta, tb := a.String()+tail, b.String()+tail
			if brk%2 == 0 {
				ta = strings.Replace(ta, "1 + ", "1 +\n", 1) // keep the lengths equal: both have exactly one extra line break
			} else {
				tb = strings.Replace(tb, "1 +\n", "1 + ", 1)
			}
			if len(ta) == len(tb) {
				// the spacer is long too, but of another length: state keyed by (path, length) is replaced by it, so that in some
				// orders a twin is preceded by its sibling and in others by the spacer
				inputs = append(inputs, ta, tb, "SELECT 1 +\n"+ta, tb)
				ctx.Class("batch-with-same-length-twins")
			}
		}
		// duplicates on purpose: the same input in flight on several goroutines
		if rapid.Bool().Draw(t, "dups") {
			inputs = append(inputs, inputs[0], inputs[0], inputs[len(inputs)/2])
		}
		gor := rapid.SampledFrom([]int{4, 8, 16}).Draw(t, "goroutines")
		cs := &harness.Case{Leg: "batches", Input: encodeBatch(inputs), Aux: map[string]string{"goroutines": strconv.Itoa(gor), "rotate": strconv.Itoa(rapid.IntRange(0, 100).Draw(t, "rotate"))}}
		ctx.Eval(int64(len(inputs) * len(c03Entries)))
		if withErr > 0 && gor >= 4 {
			ctx.NonTrivial(harness.Hash(cs.Input))
		}
		ctx.Sample(map[string]any{"inputs": len(inputs), "goroutines": gor, "first": q(trunc(inputs[0], 120))})
		ctx.Check(t, cs, oracleC18(ctx, cs))
	})
}
