package props

import (
	"fmt"
	"strings"

	"github.com/cloudspannerecosystem/memefish"
	"pgregory.net/rapid"

	"verif/internal/harness"
	"verif/internal/mutate"
	"verif/internal/reflex"
)

// C12 — SplitRawStatements partitions the input at top-level semicolons and nothing else.

const splitAlphabet = ";ar'\"`\n -/*#\\"

func init() {
	harness.Register(&harness.Property{
		ID: "C12", Run: runC12, Oracle: oracleC12, Minimize: true,
		Rule: "cases: every string of length <=5 (quick) / <=6 (thorough) over the 13-symbol alphabet " + fmt.Sprintf("%q", splitAlphabet) +
			"; random lists of corpus/generated statements and lexical fragments joined by ';' with arbitrary whitespace and comments of all four kinds around the separators, " +
			"literals and comments containing ';', '--', '/*' and quotes; the literal matrix of C14 with ';' inside and around the literal; inputs of 1-4097 lines with an error at offset 0 / a line start / the end; token soups. Oracle: the reference lexer decides accept/reject and where the top-level ';' tokens are. " +
			"Non-trivial = >=1 top-level ';' together with >=1 ';' inside a literal or comment, or a rejected input; distinct by input hash.",
		Assumptions: []string{"token and comment boundaries are those of the reference lexer (internal/reflex)"},
	})
}

func oracleC12(ctx *harness.Ctx, cs *harness.Case) (ds []harness.Discrepancy) {
	src := cs.Input
	add := func(sig, msg string) {
		ds = append(ds, harness.Discrepancy{Sig: sig, Msg: msg + " input=" + q(trunc(src, 160))})
	}
	var pieces []*memefish.RawStatement
	var err error
	o := guarded(func() ([]astNode, error) { pieces, err = memefish.SplitRawStatements("", src); return nil, nil })
	if o.Panicked {
		add("C12 panic "+panicKind(o.PanicVal), fmt.Sprint(o.PanicVal))
		return
	}
	ref, rerr := reflex.Lex(src)
	if (err != nil) != (rerr != nil) {
		add(fmt.Sprintf("C12 error-iff-lexical-error impl_err=%v ref_err=%v", err != nil, rerr != nil), fmt.Sprintf("SplitRawStatements err=%v, reference lexer err=%v", err, rerr))
		return
	}
	if err != nil {
		return
	}
	// segments delimited by top-level ';' tokens
	type seg struct {
		lo, hi     int // text bounds: after previous ';' .. start of this ';' (or len)
		first, end int // first byte of the first token/comment, end of the last one (-1 if none)
	}
	var segs []seg
	cur := seg{lo: 0, first: -1, end: -1}
	mark := func(p, e int) {
		if cur.first < 0 {
			cur.first = p
		}
		cur.end = e
	}
	for _, t := range ref {
		for _, c := range t.Comments {
			mark(c.Pos, c.End)
		}
		switch {
		case t.Kind == reflex.EOF:
		case t.Kind == reflex.Punct && t.Raw == ";":
			cur.hi = t.Pos
			segs = append(segs, cur)
			cur = seg{lo: t.End, first: -1, end: -1}
		default:
			mark(t.Pos, t.End)
		}
	}
	cur.hi = len(src)
	nSemi := len(segs)
	if cur.first >= 0 || nSemi == 0 {
		segs = append(segs, cur)
	}
	if len(pieces) != len(segs) {
		tail := "no content after the last ';'"
		if cur.first >= 0 {
			tail = fmt.Sprintf("content after the last ';' at %d", cur.first)
		}
		add(fmt.Sprintf("C12 piece-count impl=%+d", len(pieces)-len(segs)), fmt.Sprintf("%d pieces, expected %d (%d top-level ';', %s)", len(pieces), len(segs), nSemi, tail))
		return
	}
	prevEnd := 0
	for i, p := range pieces {
		s := segs[i]
		if p == nil {
			add("C12 nil-piece", "nil piece")
			return
		}
		pos, end := int(p.Pos), int(p.End)
		if pos < 0 || end < pos || end > len(src) {
			add("C12 range", fmt.Sprintf("piece %d range [%d,%d) with len %d", i, pos, end, len(src)))
			return
		}
		if p.Statement != src[pos:end] {
			add("C12 statement!=slice", fmt.Sprintf("piece %d Statement %q != input[%d:%d] %q", i, p.Statement, pos, end, src[pos:end]))
		}
		if pos < prevEnd {
			add("C12 order", fmt.Sprintf("piece %d starts at %d before the end %d of the previous one", i, pos, prevEnd))
		}
		prevEnd = end
		if pos < s.lo || end > s.hi {
			add("C12 semicolon-inside-piece", fmt.Sprintf("piece %d [%d,%d) reaches over its delimiting ';' (segment [%d,%d))", i, pos, end, s.lo, s.hi))
			continue
		}
		if s.first >= 0 {
			if pos > s.first {
				what := "token"
				if strings.HasPrefix(src[s.first:], "/*") || strings.HasPrefix(src[s.first:], "--") || strings.HasPrefix(src[s.first:], "#") || strings.HasPrefix(src[s.first:], "//") {
					what = "comment"
				}
				add("C12 leading-"+what+"-outside-piece", fmt.Sprintf("piece %d starts at %d but its segment's first %s starts at %d", i, pos, what, s.first))
			}
			if end < s.end {
				add("C12 trailing-content-outside-piece", fmt.Sprintf("piece %d ends at %d but its segment's last token/comment ends at %d", i, end, s.end))
			}
		}
		if !reflex.IsSpaceOnly(src[s.lo:min(pos, s.hi)]) && s.first >= 0 && pos <= s.first {
			add("C12 gap-not-whitespace", fmt.Sprintf("text before piece %d is not whitespace", i))
		}
	}
	if nSemi == 0 && src == "" && (len(pieces) != 1 || pieces[0].Statement != "") {
		add("C12 empty-input", "empty input must give the single empty piece")
	}
	return
}

func c12Classify(ctx *harness.Ctx, src string) {
	ctx.Eval(1)
	ref, err := reflex.Lex(src)
	if err != nil {
		ctx.Class("rejected")
		ctx.NonTrivial(harness.Hash(src))
		return
	}
	top, inside := 0, false
	for _, t := range ref {
		if t.Kind == reflex.Punct && t.Raw == ";" {
			top++
		}
		if (t.Kind == reflex.String || t.Kind == reflex.Bytes || (t.Kind == reflex.Ident && strings.HasPrefix(t.Raw, "`"))) && strings.Contains(t.Raw, ";") {
			inside = true
			ctx.Class("semicolon-in-literal")
		}
		for _, c := range t.Comments {
			if strings.Contains(c.Raw, ";") {
				inside = true
				ctx.Class("semicolon-in-comment")
			}
			ctx.Class("comment")
		}
	}
	if top > 0 {
		ctx.Class("has-top-level-semicolon")
	}
	if top > 0 && inside {
		ctx.NonTrivial(harness.Hash(src))
	}
}

func runC12(ctx *harness.Ctx) {
	do := func(t harness.T, leg, src string) bool {
		cs := &harness.Case{Leg: leg, Input: src}
		c12Classify(ctx, src)
		return ctx.Check(t, cs, oracleC12(ctx, cs))
	}
	n := ctx.Pick(5, 6)
	ctx.Leg("exhaustive-chars", func() {
		enumStrings(splitAlphabet, n, ctx.Shard, ctx.Of, func(s string) bool { do(nil, "exhaustive-chars", s); return ctx.ViolationCount() < 6 })
		ctx.Exhaustive(fmt.Sprintf("all strings of length <=%d over %q", n, splitAlphabet), ctx.ViolationCount() == 0)
	})
	frags := []string{"SELECT 1", "a", "'x;y'", "\"a;b\"", "`c;d`", "'''t;\n;'''", "r'\\;'", "b\"\\x3b;\"", "", " ", "1", "(", "SELECT ';' AS `;`"}
	trivia := []string{"", " ", "\n", "\t", "/*c*/", "/*;*/", "-- c;\n", "# ;\n", "// x\n", "/* ' */", "/* \" */", "--'\n", " /**/ ", "\r\n"}
	ctx.Rapid("joined", ctx.Pick(10000, 200000), func(t *rapid.T) {
		k := rapid.IntRange(0, 5).Draw(t, "pieces")
		var b strings.Builder
		tr := func() {
			m := rapid.IntRange(0, 2).Draw(t, "trivia")
			for i := 0; i < m; i++ {
				b.WriteString(rapid.SampledFrom(trivia).Draw(t, "tr"))
			}
		}
		for i := 0; i < k; i++ {
			tr()
			switch rapid.IntRange(0, 3).Draw(t, "kind") {
			case 0:
				s, _ := drawSentence(t)
				b.WriteString(strings.TrimRight(s, " \n;"))
			default:
				b.WriteString(rapid.SampledFrom(frags).Draw(t, "frag"))
			}
			tr()
			if i < k-1 || rapid.Bool().Draw(t, "trailing") {
				b.WriteString(";")
			}
		}
		tr()
		s := b.String()
		ctx.Sample(map[string]any{"leg": "joined", "input": q(trunc(s, 300))})
		do(t, "joined", s)
	})
	ctx.Rapid("many-lines", ctx.Pick(250, 4000), func(t *rapid.T) {
		src, where := drawManyLines(t)
		ctx.Class("many-lines:error-" + where)
		do(t, "many-lines", src)
	})
	// the literal matrix of C13/C14 (16 prefixes incl. doubled ones x 5 quote forms x escapes x positions), with ';' inside and around the literal
	ctx.Leg("literal-matrix", func() {
		forLiteralMatrix(ctx, func(lit string) bool {
			do(nil, "literal-matrix", "SELECT 1 AS "+lit+"; SELECT 2")
			do(nil, "literal-matrix", lit+";x")
			return ctx.ViolationCount() < 6
		})
	})
	ctx.Rapid("soup", ctx.Pick(10000, 200000), func(t *rapid.T) {
		n := rapid.IntRange(0, 16).Draw(t, "n")
		var b strings.Builder
		for i := 0; i < n; i++ {
			if rapid.IntRange(0, 3).Draw(t, "semi") == 0 {
				b.WriteString(";")
			} else {
				b.WriteString(mutate.Soup(t, 2))
			}
		}
		do(t, "soup", b.String())
	})
}
