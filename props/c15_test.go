package props

import (
	"encoding/hex"
	"fmt"
	"strconv"
	"strings"
	"unicode/utf8"

	"github.com/cloudspannerecosystem/memefish/token"
	"pgregory.net/rapid"

	"verif/internal/harness"
	"verif/internal/reflex"
)

// C15 — quoting functions are right inverses of lexing.

func init() {
	harness.Register(&harness.Property{
		ID: "C15", Run: runC15, Oracle: oracleC15, Minimize: true,
		Rule: "cases: for each of QuoteSQLString / QuoteSQLBytes / QuoteSQLIdent: every 1- and 2-byte string (65 792), every Unicode scalar value (1 112 064, UTF-8 encoded), " +
			"and random strings <=40 bytes over quotes, back-quote, backslash, controls, non-printables, multi-byte runes, invalid UTF-8 and keywords; runs of 1..300 (and around 512 ... 65536) copies of each of 18 byte/rune classes, mixtures of 2-4 runs, and small values quoted right after a huge one (4 KiB - 300 KiB) on the same goroutine. " +
			"Oracle: the quoted text lexes (memefish.Lexer and the reference lexer) to exactly one token of the right kind whose value is the original string. " +
			"Last clause (values survive SQL()): ~110 templates (typed literals, field access on every operand kind, names in expressions, queries, hints, DDL, DML, types) and generator sentences filled with composed values; " +
			"every identifier / string / bytes value held by the accepted tree must be found, in order and with its kind, among the tokens of SQL() as decoded by the reference lexer. " +
			"Non-trivial = the output differs from the bare input by more than the enclosing quotes (needs quoting or escaping), or an accepted template instance; distinct by (function, input).",
		Assumptions: []string{"QuoteSQLIdent is only defined for non-empty names"},
	})
}

var quoteFns = []string{"QuoteSQLString", "QuoteSQLBytes", "QuoteSQLIdent"}

func identShaped(s string) bool {
	if s == "" {
		return false
	}
	for i := 0; i < len(s); i++ {
		c := s[i]
		ok := c == '_' || c >= 'a' && c <= 'z' || c >= 'A' && c <= 'Z' || (i > 0 && c >= '0' && c <= '9')
		if !ok {
			return false
		}
	}
	return true
}

func oracleC15(ctx *harness.Ctx, cs *harness.Case) (ds []harness.Discrepancy) {
	s := cs.Input
	if cs.Aux["runs"] != "" {
		s = expandRuns(cs.Aux["runs"]) // long values are stored as run lengths
	}
	add := func(sig, msg string) {
		ds = append(ds, harness.Discrepancy{Sig: sig, Msg: msg + " fn=" + cs.Entry + " input=" + q(trunc(s, 80)) + " aux=" + fmt.Sprint(cs.Aux)})
	}
	if pre := cs.Aux["pre"]; pre != "" {
		// an earlier, unrelated call (a huge value) on the same goroutine: the call under test must not see anything of it
		fn, runs, _ := strings.Cut(pre, ":")
		guarded(func() ([]astNode, error) {
			switch v := expandRuns(runs); fn {
			case "QuoteSQLString":
				_ = token.QuoteSQLString(v)
			case "QuoteSQLBytes":
				_ = token.QuoteSQLBytes([]byte(v))
			default:
				_ = token.QuoteSQLIdent(v)
			}
			return nil, nil
		})
	}
	if strings.HasPrefix(cs.Entry, "survive:") {
		c15Survive(cs, add)
		return
	}
	if cs.Entry == "QuoteSQLIdent" && s == "" {
		return // the property quantifies over non-empty names only (the native fuzz leg hands the oracle arbitrary inputs)
	}
	var out string
	o := guarded(func() ([]astNode, error) {
		switch cs.Entry {
		case "QuoteSQLString":
			out = token.QuoteSQLString(s)
		case "QuoteSQLBytes":
			out = token.QuoteSQLBytes([]byte(s))
		case "QuoteSQLIdent":
			out = token.QuoteSQLIdent(s)
		}
		return nil, nil
	})
	if o.Panicked {
		add("C15 panic "+cs.Entry+" "+panicKind(o.PanicVal), fmt.Sprint(o.PanicVal))
		return
	}
	wantKind := map[string]token.TokenKind{"QuoteSQLString": token.TokenString, "QuoteSQLBytes": token.TokenBytes, "QuoteSQLIdent": token.TokenIdent}[cs.Entry]
	wantRef := map[string]reflex.Kind{"QuoteSQLString": reflex.String, "QuoteSQLBytes": reflex.Bytes, "QuoteSQLIdent": reflex.Ident}[cs.Entry]
	class := valueClass(s)
	toks, err := mfLex(out)
	switch {
	case err != nil:
		add("C15 "+cs.Entry+" output-does-not-lex "+class, fmt.Sprintf("output %s: %v", q(trunc(out, 100)), err))
	case len(toks) != 2:
		add("C15 "+cs.Entry+" not-one-token "+class, fmt.Sprintf("output %s lexes to %d tokens", q(trunc(out, 100)), len(toks)-1))
	case toks[0].Kind != wantKind:
		add("C15 "+cs.Entry+" wrong-kind "+class, fmt.Sprintf("output %s lexes as %s", q(trunc(out, 100)), toks[0].Kind))
	case toks[0].AsString != s:
		add("C15 "+cs.Entry+" value-changed "+class, fmt.Sprintf("output %s decodes to %s", q(trunc(out, 100)), q(trunc(toks[0].AsString, 80))))
	}
	ref, rerr := reflex.Lex(out)
	switch {
	case rerr != nil:
		add("C15 "+cs.Entry+" ref:output-does-not-lex "+class, fmt.Sprintf("output %s: %v", q(trunc(out, 100)), rerr))
	case len(ref) != 2 || ref[0].Kind != wantRef:
		add("C15 "+cs.Entry+" ref:not-one-token "+class, fmt.Sprintf("output %s: %d reference tokens", q(trunc(out, 100)), len(ref)-1))
	case ref[0].Value != s:
		add("C15 "+cs.Entry+" ref:value-changed "+class, fmt.Sprintf("output %s decodes (reference) to %s", q(trunc(out, 100)), q(trunc(ref[0].Value, 80))))
	}
	if cs.Entry == "QuoteSQLIdent" && !strings.HasPrefix(out, "`") {
		if !identShaped(s) {
			add("C15 QuoteSQLIdent unquoted-non-identifier", fmt.Sprintf("returned unquoted %s", q(out)))
		} else if reflex.IsReserved(s) {
			add("C15 QuoteSQLIdent unquoted-reserved-keyword", fmt.Sprintf("returned unquoted %s", q(out)))
		}
	}
	return
}

// valueClass names the class of bytes that makes a value hard to quote (for signatures).
func valueClass(s string) string {
	switch {
	case !utf8.ValidString(s):
		return "invalid-utf8"
	}
	for _, r := range s {
		if r < 0x20 || r == 0x7f {
			return "control"
		}
	}
	for _, r := range s {
		if r >= 0x80 {
			return "non-ascii"
		}
	}
	if strings.ContainsAny(s, "'\"`\\") {
		return "quote-or-backslash"
	}
	return "plain"
}

// expandRuns decodes "hex*count,hex*count,...".
func expandRuns(spec string) string {
	var b strings.Builder
	for _, part := range strings.Split(spec, ",") {
		h, c, ok := strings.Cut(part, "*")
		if !ok {
			continue
		}
		unit, err := hex.DecodeString(h)
		n, err2 := strconv.Atoi(c)
		if err != nil || err2 != nil || n < 0 || n*len(unit) > 1<<22 {
			continue
		}
		b.WriteString(strings.Repeat(string(unit), n))
	}
	return b.String()
}

// c15RunUnits: one unit per class of byte that the quoting functions treat differently.
var c15RunUnits = []string{"\x00", "\x1f", "\x7f", "\xff", "\xc3", "\n", "'", "\"", "`", "\\", "a", "é", "\u0080", "\u00ad", "日", "\ufffd", "😀", "\U000e0001"}

func c15Runs(ctx *harness.Ctx, t harness.T, leg, fn, runs, pre string) bool {
	cs := &harness.Case{Leg: leg, Entry: fn, Aux: map[string]string{"runs": runs}}
	if pre != "" {
		cs.Aux["pre"] = pre
	}
	ds := oracleC15(ctx, cs)
	ctx.Eval(1)
	ctx.Class("runs")
	ctx.NonTrivial(harness.Hash(fn, runs, pre))
	return ctx.Check(t, cs, ds)
}

func c15One(ctx *harness.Ctx, t harness.T, leg, fn, s string) bool {
	if fn == "QuoteSQLIdent" && s == "" {
		return true
	}
	cs := &harness.Case{Leg: leg, Entry: fn, Input: s}
	ds := oracleC15(ctx, cs)
	ctx.Eval(1)
	cl := valueClass(s)
	ctx.Class(cl)
	if cl != "plain" || (fn == "QuoteSQLIdent" && (!identShaped(s) || reflex.IsReserved(s))) {
		ctx.NonTrivial(harness.Hash(fn, s))
	}
	return ctx.Check(t, cs, ds)
}

func runC15(ctx *harness.Ctx) {
	ctx.Leg("exhaustive-bytes", func() {
		idx := 0
		buf := make([]byte, 2)
		for a := 0; a < 256; a++ {
			for b := -1; b < 256; b++ {
				idx++
				if idx%ctx.Of != ctx.Shard {
					continue
				}
				var s string
				if b < 0 {
					s = string([]byte{byte(a)})
				} else {
					buf[0], buf[1] = byte(a), byte(b)
					s = string(buf)
				}
				for _, fn := range quoteFns {
					c15One(ctx, nil, "exhaustive-bytes", fn, s)
				}
				if ctx.ViolationCount() >= 8 {
					return
				}
			}
		}
		ctx.Exhaustive("every 1- and 2-byte string x 3 functions", ctx.ViolationCount() == 0)
	})
	ctx.Leg("exhaustive-runes", func() {
		for r := rune(0); r <= utf8.MaxRune; r++ {
			if r >= 0xD800 && r <= 0xDFFF {
				continue
			}
			if int(r)%ctx.Of != ctx.Shard {
				continue
			}
			s := string(r)
			for _, fn := range quoteFns {
				c15One(ctx, nil, "exhaustive-runes", fn, s)
			}
			if ctx.ViolationCount() >= 8 {
				return
			}
		}
		ctx.Exhaustive("every Unicode scalar value x 3 functions", ctx.ViolationCount() == 0)
	})
	ctx.Leg("keywords", func() {
		if ctx.Shard != 0 {
			return
		}
		words := reflex.ReservedWords()
		sortStrings(words)
		for _, w := range words {
			alt := []byte(strings.ToLower(w))
			for i := range alt {
				if i%2 == 1 && alt[i] >= 'a' && alt[i] <= 'z' {
					alt[i] -= 32
				}
			}
			for _, s := range []string{w, strings.ToLower(w), w[:1] + strings.ToLower(w[1:]), string(alt), w + "_", "_" + w, w + "1", w + " ", w + "x"} {
				for _, fn := range quoteFns {
					c15One(ctx, nil, "keywords", fn, s)
				}
			}
		}
		ctx.Exhaustive(fmt.Sprintf("every reserved keyword of the documentation's table (%d) in 4 letter-case variants and 5 near-miss spellings x 3 functions", len(words)), ctx.ViolationCount() == 0)
	})
	// values held by a tree survive SQL(): drawn values in ~110 syntactic places, and generator sentences with composed values
	ctx.Rapid("survive-sql", ctx.Pick(12000, 250000), func(t *rapid.T) {
		entry, src, tmpl := drawSurviveInput(t)
		cs := &harness.Case{Leg: "survive-sql", Entry: "survive:" + entry, Input: src}
		ctx.Eval(1)
		o := entryByName[entry].Guarded(src)
		if o.Panicked || o.Err != nil {
			ctx.Class("survive: template rejected: " + tmpl)
			return
		}
		ctx.Class("survive: accepted")
		ctx.NonTrivial(harness.Hash("survive", entry, src))
		ctx.Sample(map[string]any{"leg": "survive-sql", "entry": entry, "input": q(trunc(src, 200))})
		ctx.Check(t, cs, oracleC15(ctx, cs))
	})
	ctx.Rapid("survive-sql-generated", ctx.Pick(3000, 60000), func(t *rapid.T) {
		kind := rapid.SampledFrom([]string{"expr", "expr", "query", "dml", "type"}).Draw(t, "kind")
		c := drawGen(t, kind, rapid.SampledFrom([]int{1, 2, 2, 3}).Draw(t, "depth"))
		es := entriesForKind(c.S.Kind)
		e := es[0]
		cs := &harness.Case{Leg: "survive-sql-generated", Entry: "survive:" + e.Name, Input: c.Text}
		ctx.Eval(1)
		ctx.NonTrivial(harness.Hash("survive", e.Name, c.Text))
		ctx.Check(t, cs, oracleC15(ctx, cs))
	})
	parts := []string{"'", "\"", "`", "\\", "\n", "\r", "\t", "\x00", "\x01", "\x7f", "\x80", "\xff", "\xc3", "\xc3\xa9", "é", "日", "\u0085", "\u00a0", " ", "\ufeff", "\U0001F600",
		"a", "B", "_", "1", " ", "select", "NULL", "x", "''", "\"\"", "'''", "\"\"\"", "\\x", "\\n", "?", ";", "--", "/*", "\xed\xa0\x80", "\xf4\x90\x80\x80", "\U0010FFFF", "\u200b"}
	// long runs: n copies of one unit, every n in 0..300 and the neighbourhoods of 512 ... 65536 (chunked formatting, scratch arrays,
	// buffers that are kept or dropped by size); then two and three runs; then small values right after a huge one
	ctx.Leg("long-runs", func() {
		idx := 0
		sizes := []int{}
		for n := 1; n <= ctx.Pick(300, 1100); n++ {
			sizes = append(sizes, n)
		}
		for b := 512; b <= 65536; b *= 2 {
			sizes = append(sizes, b-1, b, b+1)
		}
		for _, fn := range quoteFns {
			for _, u := range c15RunUnits {
				for _, n := range sizes {
					idx++
					if idx%ctx.Of != ctx.Shard || n*len(u) > 70000 {
						continue
					}
					if n > 4097 && !(u == "a" || u == "'" || u == "é" || (u == "\x00" && fn == "QuoteSQLBytes")) {
						continue // memefish spends ~100 us on every \u escape it decodes: the longest runs only for cheap units
					}
					if !c15Runs(ctx, nil, "long-runs", fn, fmt.Sprintf("%x*%d", u, n), "") {
						return
					}
				}
			}
		}
		ctx.Exhaustive(fmt.Sprintf("3 functions x %d units x run lengths 1..%d and 2^k-1..2^k+1 up to 65537 bytes", len(c15RunUnits), ctx.Pick(300, 1100)), ctx.ViolationCount() == 0)
	})
	ctx.Rapid("long-runs-mixed", ctx.Pick(1500, 30000), func(t *rapid.T) {
		var parts []string
		for i, k := 0, rapid.IntRange(2, 4).Draw(t, "runs"); i < k; i++ {
			n := rapid.SampledFrom([]int{1, 2, 3, 31, 32, 33, 63, 64, 65, 66, 127, 128, 129, 255, 256, 257, 1000}).Draw(t, "n")
			parts = append(parts, fmt.Sprintf("%x*%d", rapid.SampledFrom(c15RunUnits).Draw(t, "unit"), n))
		}
		c15Runs(ctx, t, "long-runs-mixed", rapid.SampledFrom(quoteFns).Draw(t, "fn"), strings.Join(parts, ","), "")
	})
	ctx.Rapid("after-huge", ctx.Pick(300, 5000), func(t *rapid.T) {
		pre := fmt.Sprintf("%s:%x*%d", rapid.SampledFrom(quoteFns).Draw(t, "pre-fn"), rapid.SampledFrom([]string{"a", "0123456789abcdef", "\x00", "é", "'"}).Draw(t, "pre-unit"),
			rapid.SampledFrom([]int{4096, 8192, 16384, 32768, 65535, 65536, 65537, 70000, 131073, 300000}).Draw(t, "pre-n"))
		runs := fmt.Sprintf("%x*%d", rapid.SampledFrom(c15RunUnits).Draw(t, "unit"), rapid.SampledFrom([]int{1, 2, 8, 100, 127, 128, 129, 200, 5000}).Draw(t, "n"))
		if rapid.Bool().Draw(t, "name") {
			runs = fmt.Sprintf("%x*1", rapid.SampledFrom([]string{"my-table", "t", "select", "a b"}).Draw(t, "value"))
		}
		c15Runs(ctx, t, "after-huge", rapid.SampledFrom(quoteFns).Draw(t, "fn"), runs, pre)
	})
	ctx.Rapid("random", ctx.Pick(20000, 400000), func(t *rapid.T) {
		n := rapid.IntRange(1, 8).Draw(t, "n")
		var b strings.Builder
		for i := 0; i < n; i++ {
			b.WriteString(rapid.SampledFrom(parts).Draw(t, "part"))
		}
		s := b.String()
		if len(s) > 40 {
			s = s[:40]
		}
		fn := rapid.SampledFrom(quoteFns).Draw(t, "fn")
		ctx.Sample(map[string]any{"fn": fn, "input": q(s)})
		c15One(ctx, t, "random", fn, s)
	})
}
