package props

import (
	"fmt"
	"strings"

	"github.com/cloudspannerecosystem/memefish"
	"github.com/cloudspannerecosystem/memefish/ast"
	"pgregory.net/rapid"

	em "verif/internal/exprmodel"
	"verif/internal/harness"
	"verif/internal/reflex"
)

// C07 — operator precedence and associativity follow the GoogleSQL table.

func init() {
	harness.Register(&harness.Property{
		ID: "C07", Run: runC07, Oracle: oracleC07,
		Rule: "cases: every operator tree with <=3 (quick) / <=4 (thorough) operator occurrences over 45 operator forms (21 binary, 4 prefix, 6 IS forms, [NOT] BETWEEN, [NOT] IN with 1/2 values, [NOT] IN UNNEST, .field, [index]) " +
			"and atoms (identifier, parameter, call, integer and float literal), random trees of depth <=8 and chains of 60-420 operands at one precedence level (left-deep, right-deep, balanced; plain, mixed or tuple operands) beyond; each printed minimally parenthesised by the documented table and fully parenthesised by the model's own printer. " +
			"ParseExpr must accept both, the AST converted to the model must equal the source tree with ParenExpr exactly where parentheses were written, and SQL() must re-lex to the source token sequence (<> as !=). " +
			"Every unparenthesised chain of two comparison-family operators must be rejected. Non-trivial = tree with >=2 operators; every enumerated tree is distinct by construction (hash of its structural rendering).",
		Assumptions: []string{"the documented table of DESIGN.md appendix A", "unary sign folding into numeric literals and Ident/Path merging are modelled explicitly"},
	})
}

// toModel converts a memefish expression into the operator model.
func toModel(e ast.Expr) (*em.Node, error) {
	formByName := func(name string) *em.Form {
		for i := range em.Forms {
			if em.Forms[i].Name == name {
				return &em.Forms[i]
			}
		}
		return nil
	}
	var conv func(e ast.Expr) (*em.Node, error)
	conv = func(e ast.Expr) (*em.Node, error) {
		switch x := e.(type) {
		case *ast.ParenExpr:
			n, err := conv(x.Expr)
			if err != nil {
				return nil, err
			}
			if n.Paren {
				// double parentheses: keep an explicit wrapper
				return &em.Node{Form: nil, Atom: "((" + n.String() + "))", Paren: true}, nil
			}
			n.Paren = true
			return n, nil
		case *ast.Ident:
			return &em.Node{Atom: x.Name}, nil
		case *ast.Param:
			return &em.Node{Atom: "@" + x.Name}, nil
		case *ast.IntLiteral:
			if len(x.Value) > 0 && (x.Value[0] == '-' || x.Value[0] == '+') {
				return &em.Node{Form: formByName("u" + x.Value[:1]), Kids: []*em.Node{{Atom: x.Value[1:]}}}, nil
			}
			return &em.Node{Atom: x.Value}, nil
		case *ast.FloatLiteral:
			if len(x.Value) > 0 && (x.Value[0] == '-' || x.Value[0] == '+') {
				return &em.Node{Form: formByName("u" + x.Value[:1]), Kids: []*em.Node{{Atom: x.Value[1:]}}}, nil
			}
			return &em.Node{Atom: x.Value}, nil
		case *ast.CallExpr:
			if len(x.Func.Idents) == 1 && len(x.Args) == 1 {
				if a, ok := x.Args[0].(*ast.ExprArg); ok {
					if id, ok := a.Expr.(*ast.Ident); ok {
						return &em.Node{Atom: x.Func.Idents[0].Name + " ( " + id.Name + " )"}, nil
					}
				}
			}
			return nil, fmt.Errorf("unexpected call shape")
		case *ast.TupleStructLiteral:
			var parts []string
			for _, v := range x.Values {
				k, err := conv(v)
				if err != nil {
					return nil, err
				}
				if k.Form != nil || k.Paren {
					return nil, fmt.Errorf("unexpected tuple element")
				}
				parts = append(parts, k.Atom)
			}
			return &em.Node{Atom: "( " + strings.Join(parts, " , ") + " )"}, nil
		case *ast.Path:
			n := &em.Node{Atom: x.Idents[0].Name}
			for range x.Idents[1:] {
				n = &em.Node{Form: formByName(".f"), Kids: []*em.Node{n}}
			}
			return n, nil
		case *ast.SelectorExpr:
			k, err := conv(x.Expr)
			if err != nil {
				return nil, err
			}
			return &em.Node{Form: formByName(".f"), Kids: []*em.Node{k}}, nil
		case *ast.IndexExpr:
			k, err := conv(x.Expr)
			if err != nil {
				return nil, err
			}
			arg, ok := x.Index.(*ast.ExprArg)
			if !ok {
				return nil, fmt.Errorf("unexpected subscript %T", x.Index)
			}
			i, err := conv(arg.Expr)
			if err != nil {
				return nil, err
			}
			return &em.Node{Form: formByName("[]"), Kids: []*em.Node{k, i}}, nil
		case *ast.UnaryExpr:
			k, err := conv(x.Expr)
			if err != nil {
				return nil, err
			}
			name := "u" + string(x.Op)
			if x.Op == ast.OpNot {
				name = "NOT"
			}
			f := formByName(name)
			if f == nil {
				return nil, fmt.Errorf("unknown unary op %q", x.Op)
			}
			return &em.Node{Form: f, Kids: []*em.Node{k}}, nil
		case *ast.BinaryExpr:
			l, err := conv(x.Left)
			if err != nil {
				return nil, err
			}
			r, err := conv(x.Right)
			if err != nil {
				return nil, err
			}
			f := formByName(string(x.Op))
			if f == nil {
				return nil, fmt.Errorf("unknown binary op %q", x.Op)
			}
			return &em.Node{Form: f, Kids: []*em.Node{l, r}}, nil
		case *ast.IsNullExpr:
			k, err := conv(x.Left)
			if err != nil {
				return nil, err
			}
			name := "IS NULL"
			if x.Not {
				name = "IS NOT NULL"
			}
			return &em.Node{Form: formByName(name), Kids: []*em.Node{k}}, nil
		case *ast.IsBoolExpr:
			k, err := conv(x.Left)
			if err != nil {
				return nil, err
			}
			name := "IS "
			if x.Not {
				name += "NOT "
			}
			if x.Right {
				name += "TRUE"
			} else {
				name += "FALSE"
			}
			return &em.Node{Form: formByName(name), Kids: []*em.Node{k}}, nil
		case *ast.BetweenExpr:
			a, err := conv(x.Left)
			if err != nil {
				return nil, err
			}
			b, err := conv(x.RightStart)
			if err != nil {
				return nil, err
			}
			c, err := conv(x.RightEnd)
			if err != nil {
				return nil, err
			}
			name := "BETWEEN"
			if x.Not {
				name = "NOT BETWEEN"
			}
			return &em.Node{Form: formByName(name), Kids: []*em.Node{a, b, c}}, nil
		case *ast.InExpr:
			l, err := conv(x.Left)
			if err != nil {
				return nil, err
			}
			not := ""
			if x.Not {
				not = "NOT "
			}
			switch c := x.Right.(type) {
			case *ast.ValuesInCondition:
				kids := []*em.Node{l}
				for _, v := range c.Exprs {
					k, err := conv(v)
					if err != nil {
						return nil, err
					}
					kids = append(kids, k)
				}
				f := formByName(fmt.Sprintf("%sIN%d", not, len(c.Exprs)))
				if f == nil {
					return nil, fmt.Errorf("IN with %d values", len(c.Exprs))
				}
				return &em.Node{Form: f, Kids: kids}, nil
			case *ast.UnnestInCondition:
				k, err := conv(c.Expr)
				if err != nil {
					return nil, err
				}
				return &em.Node{Form: formByName(not + "IN UNNEST"), Kids: []*em.Node{l, k}}, nil
			}
			return nil, fmt.Errorf("unexpected IN condition %T", x.Right)
		}
		return nil, fmt.Errorf("unexpected node %T", e)
	}
	return conv(e)
}

// relexKey renders the significant tokens of a text for comparison (<> as !=).
func relexKey(s string) (string, error) {
	toks, err := reflex.Lex(s)
	if err != nil {
		return "", err
	}
	var parts []string
	for _, t := range toks {
		switch t.Kind {
		case reflex.EOF:
		case reflex.Keyword:
			parts = append(parts, t.Value)
		case reflex.Punct:
			if t.Raw == "<>" {
				parts = append(parts, "!=")
			} else {
				parts = append(parts, t.Raw)
			}
		default:
			parts = append(parts, t.Raw)
		}
	}
	return strings.Join(parts, " "), nil
}

// c07Text checks one printed text against its expected model tree.
func c07Text(text string, exp *em.Node, mode string, add func(sig, msg string)) {
	var e ast.Expr
	var err error
	o := guarded(func() ([]astNode, error) { e, err = memefish.ParseExpr("", text); return nil, nil })
	if o.Panicked {
		return // C03
	}
	top := "atom"
	if exp.Form != nil {
		top = exp.Form.Name
	}
	if err != nil {
		add(fmt.Sprintf("C07 rejected %s top=%s", mode, top), fmt.Sprintf("ParseExpr(%q) failed: %v", text, err))
		return
	}
	got, cerr := toModel(e)
	if cerr != nil {
		add(fmt.Sprintf("C07 unexpected-node %s", mode), fmt.Sprintf("ParseExpr(%q): %v", text, cerr))
		return
	}
	if got.String() != exp.String() {
		add(fmt.Sprintf("C07 grouping %s %s", mode, groupDiff(exp, got)), fmt.Sprintf("ParseExpr(%q) grouped as %s, documented grouping is %s", text, got, exp))
		return
	}
	var sql string
	if p := callGuard(func() { sql = e.SQL() }); p != nil {
		return // C04
	}
	want, _ := relexKey(text)
	have, lerr := relexKey(sql)
	if lerr != nil || have != want {
		kind := "tokens-changed"
		switch {
		case lerr != nil:
			kind = "does-not-lex"
		case strings.Count(have, "(") > strings.Count(want, "("):
			kind = "parenthesis-added"
		case strings.Count(have, "(") < strings.Count(want, "("):
			kind = "parenthesis-removed"
		case strings.Contains(sql, "--"):
			kind = "adjacent-minus-becomes-comment"
		}
		add("C07 sql "+kind, fmt.Sprintf("source %q, SQL() %q", text, sql))
	}
}

// groupDiff names the first pair of operator forms whose grouping differs.
func groupDiff(exp, got *em.Node) string {
	name := func(n *em.Node) string {
		s := "atom"
		if n.Form != nil {
			s = n.Form.Name
		}
		if n.Paren {
			s = "(" + s + ")"
		}
		return s
	}
	var rec func(a, b *em.Node) string
	rec = func(a, b *em.Node) string {
		if name(a) != name(b) || len(a.Kids) != len(b.Kids) {
			return "want=" + name(a) + " got=" + name(b)
		}
		for i := range a.Kids {
			if d := rec(a.Kids[i], b.Kids[i]); d != "" {
				return d
			}
		}
		return ""
	}
	return rec(exp, got)
}

func oracleC07(ctx *harness.Ctx, cs *harness.Case) (ds []harness.Discrepancy) {
	add := func(sig, msg string) { ds = append(ds, harness.Discrepancy{Sig: sig, Msg: msg}) }
	switch cs.Leg {
	case "primary-substitution":
		c07Subst(cs, add)
	case "chain":
		var err error
		o := guarded(func() ([]astNode, error) { _, err = memefish.ParseExpr("", cs.Input); return nil, nil })
		if !o.Panicked && err == nil {
			add("C07 comparison-chain-accepted "+cs.Aux["pair"], fmt.Sprintf("unparenthesised chain %q was accepted", cs.Input))
		}
	default:
		// Input is the minimal text; Aux["tree"] is informational. The expected tree is rebuilt by parsing
		// the *fully parenthesised* rendering in Aux["full"] with the model's own reader.
		tree := readModel(cs.Aux["model"])
		if tree == nil {
			add("C07 harness", "cannot rebuild model tree")
			return
		}
		minText, minExp := em.Print(tree, false)
		fullText, fullExp := em.Print(tree, true)
		c07Text(minText, minExp, "minimal", add)
		c07Text(fullText, fullExp, "full", add)
	}
	return
}

// c07Atoms: the model's atoms plus tuple struct literals (used by the long-chain leg only; the enumerator keeps em.Atoms).
var c07Atoms = append(append([]string{}, em.Atoms...), "( a , b )", "( 1 , ( b , c ) )")

// writeModel / readModel serialise a tree as a prefix expression over form indices.
func writeModel(n *em.Node) string {
	if n.Form == nil {
		return "a" + fmt.Sprint(indexOf(c07Atoms, n.Atom))
	}
	var parts []string
	for i := range em.Forms {
		if &em.Forms[i] == n.Form {
			parts = append(parts, fmt.Sprint(i))
		}
	}
	for _, k := range n.Kids {
		parts = append(parts, writeModel(k))
	}
	return "(" + strings.Join(parts, " ") + ")"
}

func indexOf(l []string, s string) int {
	for i, x := range l {
		if x == s {
			return i
		}
	}
	return 0
}

func readModel(s string) *em.Node {
	toks := strings.Fields(strings.NewReplacer("(", " ( ", ")", " ) ").Replace(s))
	pos := 0
	var rd func() *em.Node
	rd = func() *em.Node {
		if pos >= len(toks) {
			return nil
		}
		t := toks[pos]
		pos++
		if strings.HasPrefix(t, "a") {
			var i int
			fmt.Sscanf(t[1:], "%d", &i)
			if i < 0 || i >= len(c07Atoms) {
				return nil
			}
			return &em.Node{Atom: c07Atoms[i]}
		}
		if t != "(" || pos >= len(toks) {
			return nil
		}
		var fi int
		if _, err := fmt.Sscanf(toks[pos], "%d", &fi); err != nil || fi < 0 || fi >= len(em.Forms) {
			return nil
		}
		pos++
		n := &em.Node{Form: &em.Forms[fi]}
		for pos < len(toks) && toks[pos] != ")" {
			k := rd()
			if k == nil {
				return nil
			}
			n.Kids = append(n.Kids, k)
		}
		pos++
		if len(n.Kids) != n.Form.Arity {
			return nil
		}
		return n
	}
	return rd()
}

func c07Tree(ctx *harness.Ctx, t harness.T, leg string, n *em.Node) bool {
	m := writeModel(n)
	text, _ := em.Print(n, false)
	cs := &harness.Case{Leg: leg, Entry: "ParseExpr", Input: text, Aux: map[string]string{"model": m}}
	ctx.Eval(2)
	if n.Ops() >= 2 {
		ctx.NonTrivial(harness.Hash(m))
	}
	ctx.Class(fmt.Sprintf("ops:%d", n.Ops()))
	return ctx.Check(t, cs, oracleC07(ctx, cs))
}

func runC07(ctx *harness.Ctx) {
	maxOps := ctx.Pick(3, 4)
	ctx.Leg("exhaustive-trees", func() {
		var idx int64
		for k := 0; k <= maxOps; k++ {
			allRots := []int{0, 1, 2, 3, 4, 5, 6}
			em.EnumerateRot(k, func(shape int64) []int {
				if k <= 2 {
					return allRots // every leaf position sees every atom kind
				}
				return []int{int(shape % 7)}
			}, func(n *em.Node) bool {
				idx++
				if idx%int64(ctx.Of) != int64(ctx.Shard) {
					return true
				}
				if idx%4099 == 1 {
					text, _ := em.Print(n, false)
					ctx.Sample(map[string]any{"leg": "exhaustive-trees", "minimal": text, "tree": n.String()})
				}
				c07Tree(ctx, nil, "exhaustive-trees", n)
				return ctx.ViolationCount() < 10
			})
		}
		ctx.Exhaustive(fmt.Sprintf("all operator trees with <=%d operator occurrences over %d forms (%d shapes)", maxOps, len(em.Forms),
			em.Count(0)+em.Count(1)+em.Count(2)+em.Count(3)+func() int64 {
				if maxOps >= 4 {
					return em.Count(4)
				}
				return 0
			}()), ctx.ViolationCount() == 0)
	})
	runC07Subst(ctx)
	ctx.Leg("chain", func() {
		if ctx.Shard != 0 {
			return
		}
		fam := em.ComparisonFamily()
		for _, f1 := range fam {
			for _, f2 := range fam {
				// X f1 Y f2 Z printed flat
				mk := func(f *em.Form, left *em.Node) *em.Node {
					kids := []*em.Node{left}
					for i := 1; i < f.Arity; i++ {
						kids = append(kids, &em.Node{Atom: em.Atoms[i]})
					}
					return &em.Node{Form: f, Kids: kids}
				}
				inner := mk(f1, &em.Node{Atom: "a"})
				innerText, _ := em.Print(inner, false)
				// print outer with a placeholder left operand, then splice the unparenthesised inner text
				outer := mk(f2, &em.Node{Atom: "PLACEHOLDER"})
				outerText, _ := em.Print(outer, false)
				flat := strings.Replace(outerText, "PLACEHOLDER", innerText, 1)
				for _, ctxText := range []string{"%s", "( %s )", "x AND %s", "NOT %s", "f ( %s )"} {
					src := fmt.Sprintf(ctxText, flat)
					cs := &harness.Case{Leg: "chain", Entry: "ParseExpr", Input: src, Aux: map[string]string{"pair": f1.Name + " / " + f2.Name}}
					ctx.Eval(1)
					ctx.NonTrivial(harness.Hash("chain", src))
					ctx.Check(nil, cs, oracleC07(ctx, cs))
				}
			}
		}
		ctx.Exhaustive("all ordered pairs of comparison-family forms as an unparenthesised chain x 5 contexts", true)
	})
	// long chains: 100-400 operands at one precedence level (left-deep, right-deep or balanced), the shapes that
	// exercise associativity beyond what small trees show (operand counts around 128 / 256, hundreds of tuple operands,
	// hundreds of nested parentheses).
	var binForms []*em.Form
	for i := range em.Forms {
		if em.Forms[i].Kind == "bin" {
			binForms = append(binForms, &em.Forms[i])
		}
	}
	ctx.Rapid("long-chains", ctx.Pick(120, 2500), func(t *rapid.T) {
		lv := rapid.SampledFrom([]int{3, 4, 5, 6, 7, 8, 9, 11, 11, 12, 12}).Draw(t, "level")
		var level []*em.Form
		for _, g := range binForms {
			if g.Level == lv {
				level = append(level, g)
			}
		}
		f := level[rapid.IntRange(0, len(level)-1).Draw(t, "form")]
		n := rapid.SampledFrom([]int{100, 127, 128, 129, 130, 200, 255, 256, 257, 258, 300, 400}).Draw(t, "operands")
		if rapid.IntRange(0, 3).Draw(t, "free-n") == 0 {
			n = rapid.IntRange(60, 420).Draw(t, "n")
		}
		atomMode := rapid.SampledFrom([]string{"mixed", "mixed", "tuples", "plain"}).Draw(t, "atoms")
		atom := func() *em.Node {
			switch atomMode {
			case "tuples":
				return &em.Node{Atom: c07Atoms[len(em.Atoms)+rapid.IntRange(0, 1).Draw(t, "tuple")]}
			case "plain":
				return &em.Node{Atom: em.Atoms[rapid.IntRange(0, len(em.Atoms)-1).Draw(t, "atom")]}
			}
			return &em.Node{Atom: rapid.SampledFrom(c07Atoms).Draw(t, "atom")}
		}
		op := func() *em.Form {
			if rapid.IntRange(0, 3).Draw(t, "same-op") > 0 {
				return f
			}
			return level[rapid.IntRange(0, len(level)-1).Draw(t, "op")]
		}
		shape := rapid.SampledFrom([]string{"left", "left", "left", "right", "balanced"}).Draw(t, "shape")
		var build func(k int) *em.Node
		build = func(k int) *em.Node {
			if k <= 1 {
				return atom()
			}
			switch shape {
			case "right":
				return &em.Node{Form: op(), Kids: []*em.Node{atom(), build(k - 1)}}
			case "balanced":
				return &em.Node{Form: op(), Kids: []*em.Node{build(k / 2), build(k - k/2)}}
			}
			return nil
		}
		var tree *em.Node
		if shape == "left" {
			tree = atom()
			for i := 1; i < n; i++ {
				tree = &em.Node{Form: op(), Kids: []*em.Node{tree, atom()}}
			}
		} else {
			tree = build(n)
		}
		if rapid.IntRange(0, 2).Draw(t, "tail") == 0 {
			// something after the chain: a parenthesised operand of a looser / the same level
			g := binForms[rapid.IntRange(0, len(binForms)-1).Draw(t, "tail-form")]
			tree = &em.Node{Form: g, Kids: []*em.Node{tree, {Form: f, Kids: []*em.Node{atom(), atom()}}}}
		}
		ctx.Class("long-chains:" + shape)
		ctx.Class(fmt.Sprintf("long-chains:level-%d", f.Level))
		ctx.Class("long-chains:atoms-" + atomMode)
		if n >= 129 {
			ctx.Class("long-chains:>=129-operands")
		}
		if n >= 257 {
			ctx.Class("long-chains:>=257-operands")
		}
		c07Tree(ctx, t, "long-chains", tree)
	})
	ctx.Rapid("random-trees", ctx.Pick(4000, 80000), func(t *rapid.T) {
		var build func(depth int) *em.Node
		build = func(depth int) *em.Node {
			if depth <= 0 || rapid.IntRange(0, 9).Draw(t, "leaf") < 3 {
				return &em.Node{Atom: rapid.SampledFrom(em.Atoms).Draw(t, "atom")}
			}
			f := &em.Forms[rapid.IntRange(0, len(em.Forms)-1).Draw(t, "form")]
			n := &em.Node{Form: f}
			for i := 0; i < f.Arity; i++ {
				n.Kids = append(n.Kids, build(depth-1))
			}
			return n
		}
		n := build(rapid.IntRange(2, 8).Draw(t, "depth"))
		if n.Ops() > 40 {
			return
		}
		c07Tree(ctx, t, "random-trees", n)
	})
}
