package props

import (
	"fmt"
	"strings"

	"github.com/cloudspannerecosystem/memefish"
	"github.com/cloudspannerecosystem/memefish/token"
	"pgregory.net/rapid"

	"verif/internal/harness"
	"verif/internal/mutate"
	"verif/internal/reflex"
)

// C13 — lexing is lossless (tiling, Raw/Pos/End consistency, sticky EOF).
// C14 — the lexer conforms to the lexical structure (differential against internal/reflex).

func init() {
	harness.Register(&harness.Property{
		ID: "C13", Run: func(ctx *harness.Ctx) { runLexProps(ctx, oracleC13) }, Oracle: oracleC13, Minimize: true,
		Rule: "cases: every string of length <=5 (quick) / <=6 (thorough) over the 24-symbol alphabet " + fmt.Sprintf("%q", lexAlphabet) +
			", every sequence of <=4 (quick) / <=5 (thorough) lexical words (identifiers, keywords, numbers, literals, dots, brackets, comments), " +
			"every string <=5 / <=6 over a numeric alphabet, every string <=8 / <=9 over the comment alphabet \"/*a \\n-#\", every sequence of <=4 / <=5 white-space symbols, " +
			"every Unicode scalar value and lone high byte in trivia position, a literal matrix (prefix x quote form x escape x position), random literal/number/soup strings, " +
			"inputs of 1-4097 lines and rendered generator sentences. Checked: tiling, Raw==input[Pos:End], ordering, whitespace-only Space, complete comments, no empty token, sticky <eof>; " +
			"the recovery-mode lexer (verif hook) must tile every input and equal NextToken on accepted input. " +
			"Non-trivial = >=2 tokens, or a literal/comment, or a rejected string; distinct by input hash.",
		Assumptions: []string{"a comment is complete when '#', '--', '//' runs to newline/EOF or '/*' is closed by a '*/' that starts after the 2-byte opener"},
	})
	harness.Register(&harness.Property{
		ID: "C14", Run: func(ctx *harness.Ctx) { runLexProps(ctx, oracleC14) }, Oracle: oracleC14, Minimize: true,
		Rule: "same input domains as C13; each input is lexed by memefish.Lexer and by the independent reference lexer (internal/reflex, DESIGN.md appendix B) and the " +
			"token streams are compared: accept/reject, kind, raw text, decoded value, integer base, comments and leading space. " +
			"Non-trivial = >=2 tokens, or a literal/comment, or a rejected string; distinct by input hash.",
		Assumptions: []string{
			"the reference lexer embodies the interpretive decisions of DESIGN.md 3.5 (\\xHH and \\ooo are one byte; only \\n ends a one-quote literal; <> and >> are single tokens; dot-identifier mode after ident/param/)/])",
			"error text and error position are not compared",
		},
	})
}

func mfKind(t *token.Token) (reflex.Kind, string) {
	switch t.Kind {
	case token.TokenEOF:
		return reflex.EOF, ""
	case token.TokenIdent:
		return reflex.Ident, t.AsString
	case token.TokenParam:
		return reflex.Param, t.AsString
	case token.TokenInt:
		return reflex.Int, ""
	case token.TokenFloat:
		return reflex.Float, ""
	case token.TokenString:
		return reflex.String, t.AsString
	case token.TokenBytes:
		return reflex.Bytes, t.AsString
	}
	if _, ok := token.KeywordsMap[t.Kind]; ok {
		return reflex.Keyword, string(t.Kind)
	}
	return reflex.Punct, string(t.Kind)
}

// tiling checks the token stream against the input; mode names the lexer mode in signatures.
func tiling(src string, toks []token.Token, mode string, add func(sig, msg string)) {
	var b strings.Builder
	last := 0
	for i := range toks {
		t := &toks[i]
		for _, c := range t.Comments {
			b.WriteString(c.Space)
			b.WriteString(c.Raw)
			if int(c.Pos) < last || c.End < c.Pos || int(c.End) > len(src) {
				add("C13 "+mode+"comment-range", fmt.Sprintf("comment range [%d,%d) after %d", c.Pos, c.End, last))
				return
			}
			if src[c.Pos:c.End] != c.Raw {
				add("C13 "+mode+"comment-raw", fmt.Sprintf("comment Raw %q != input[%d:%d] %q", c.Raw, c.Pos, c.End, src[c.Pos:c.End]))
			}
			if !reflex.IsSpaceOnly(c.Space) {
				add("C13 "+mode+"space-not-whitespace", fmt.Sprintf("comment Space %q", c.Space))
			}
			if mode == "" {
				checkCommentComplete(src, c, add)
			}
			last = int(c.End)
		}
		b.WriteString(t.Space)
		b.WriteString(t.Raw)
		if !reflex.IsSpaceOnly(t.Space) {
			add("C13 "+mode+"space-not-whitespace", fmt.Sprintf("token Space %q", t.Space))
		}
		if int(t.Pos) < last || t.End < t.Pos || int(t.End) > len(src) {
			add("C13 "+mode+"token-range", fmt.Sprintf("token %q range [%d,%d) after %d (len %d)", t.Raw, t.Pos, t.End, last, len(src)))
			return
		}
		if src[t.Pos:t.End] != t.Raw {
			add("C13 "+mode+"token-raw", fmt.Sprintf("token Raw %q != input[%d:%d] %q", t.Raw, t.Pos, t.End, src[t.Pos:t.End]))
		}
		if t.Kind != token.TokenEOF && t.End == t.Pos {
			// a recovery-mode <bad> token after an unclosed comment is legitimately empty
			if !(mode != "" && t.Kind == token.TokenBad) {
				add("C13 "+mode+"empty-token", fmt.Sprintf("empty %s token at %d", t.Kind, t.Pos))
			}
		}
		if t.Kind == token.TokenEOF && i != len(toks)-1 {
			add("C13 "+mode+"eof-not-last", "an <eof> token is followed by more tokens")
		}
		last = int(t.End)
	}
	if len(toks) == 0 || toks[len(toks)-1].Kind != token.TokenEOF {
		add("C13 "+mode+"no-eof", "token stream does not end with <eof>")
		return
	}
	if b.String() != src {
		add("C13 "+mode+"tiling", fmt.Sprintf("concatenation of comments/space/raw %q != input %q", trunc(b.String(), 80), trunc(src, 80)))
	}
}

func checkCommentComplete(src string, c token.TokenComment, add func(sig, msg string)) {
	r := c.Raw
	switch {
	case strings.HasPrefix(r, "/*"):
		if len(r) < 4 || !strings.HasSuffix(r, "*/") {
			add("C13 incomplete-comment block", fmt.Sprintf("%q is not a complete /* */ comment (closer overlaps opener or is missing)", r))
		} else if strings.Contains(r[2:len(r)-2], "*/") {
			add("C13 comment-too-long block", fmt.Sprintf("%q runs past its closer", r))
		}
	case strings.HasPrefix(r, "#"), strings.HasPrefix(r, "--"), strings.HasPrefix(r, "//"):
		body := strings.TrimSuffix(r, "\n")
		if strings.Contains(body, "\n") {
			add("C13 comment-too-long line", fmt.Sprintf("%q spans a newline", r))
		}
		if !strings.HasSuffix(r, "\n") && int(c.End) != len(src) {
			add("C13 incomplete-comment line", fmt.Sprintf("%q ends before newline/EOF", r))
		}
	default:
		add("C13 not-a-comment", fmt.Sprintf("%q recorded as comment", r))
	}
}

func oracleC13(ctx *harness.Ctx, cs *harness.Case) (ds []harness.Discrepancy) {
	src := cs.Input
	add := func(sig, msg string) {
		ds = append(ds, harness.Discrepancy{Sig: sig, Msg: msg + " input=" + q(trunc(src, 120))})
	}
	var toks []token.Token
	var lerr error
	o := guarded(func() ([]astNode, error) {
		l := &memefish.Lexer{File: &token.File{Buffer: src}}
		for i := 0; i <= len(src)+1; i++ {
			if e := l.NextToken(); e != nil {
				lerr = e
				return nil, nil
			}
			toks = append(toks, l.Token)
			if l.Token.Kind == token.TokenEOF {
				// sticky EOF
				for k := 0; k < 3; k++ {
					if e := l.NextToken(); e != nil || l.Token.Kind != token.TokenEOF || int(l.Token.Pos) != len(src) || l.Token.End != l.Token.Pos {
						add("C13 eof-not-sticky", fmt.Sprintf("NextToken after <eof> gave kind=%s err=%v pos=%d", l.Token.Kind, e, l.Token.Pos))
						break
					}
				}
				return nil, nil
			}
		}
		lerr = fmt.Errorf("no progress")
		add("C13 no-progress", "lexer did not reach <eof>")
		return nil, nil
	})
	if o.Panicked {
		add("C13 panic NextToken "+panicKind(o.PanicVal), fmt.Sprint(o.PanicVal))
		return
	}
	if lerr == nil {
		tiling(src, toks, "", add)
	}
	// recovery-mode lexer: tiles every input; equals NextToken on accepted input
	var rtoks []token.Token
	o = guarded(func() ([]astNode, error) { rtoks = mfLexRecovery(src); return nil, nil })
	if o.Panicked {
		add("C13 panic recovery-lexer "+panicKind(o.PanicVal), fmt.Sprint(o.PanicVal))
		return
	}
	tiling(src, rtoks, "recovery ", add)
	if lerr == nil {
		if len(rtoks) != len(toks) {
			add("C13 recovery-differs count", fmt.Sprintf("recovery-mode lexer gives %d tokens, NextToken %d on lexically clean input", len(rtoks), len(toks)))
		} else {
			for i := range toks {
				a, b := toks[i], rtoks[i]
				if a.Kind != b.Kind || a.Raw != b.Raw || a.Pos != b.Pos || a.End != b.End || a.AsString != b.AsString || a.Base != b.Base || a.Space != b.Space || len(a.Comments) != len(b.Comments) {
					add("C13 recovery-differs token", fmt.Sprintf("token %d: NextToken %s %q vs recovery %s %q", i, a.Kind, a.Raw, b.Kind, b.Raw))
					break
				}
			}
		}
	} else {
		bad := false
		for _, t := range rtoks {
			if t.Kind == token.TokenBad {
				bad = true
			}
		}
		if !bad {
			add("C13 recovery-no-bad", "NextToken rejects the input but the recovery-mode lexer produced no <bad> token")
		}
	}
	return
}

func oracleC14(ctx *harness.Ctx, cs *harness.Case) (ds []harness.Discrepancy) {
	src := cs.Input
	add := func(sig, msg string) {
		ds = append(ds, harness.Discrepancy{Sig: sig, Msg: msg + " input=" + q(trunc(src, 120))})
	}
	var toks []token.Token
	var lerr error
	o := guarded(func() ([]astNode, error) { toks, lerr = mfLex(src); return nil, nil })
	if o.Panicked {
		add("C14 panic NextToken "+panicKind(o.PanicVal), fmt.Sprint(o.PanicVal))
		return
	}
	ref, rerr := reflex.Lex(src)
	// compare the common prefix of tokens first: the first differing token names the root cause
	n := len(toks)
	if len(ref) < n {
		n = len(ref)
	}
	for i := 0; i < n; i++ {
		a, r := &toks[i], &ref[i]
		k, v := mfKind(a)
		switch {
		case k != r.Kind:
			add(fmt.Sprintf("C14 kind ref=%s impl=%s", r.Kind, k), fmt.Sprintf("token %d: reference %s %q, memefish %s %q", i, r.Kind, r.Raw, a.Kind, a.Raw))
			return
		case a.Raw != r.Raw || int(a.Pos) != r.Pos || int(a.End) != r.End:
			add(fmt.Sprintf("C14 boundary %s", r.Kind), fmt.Sprintf("token %d: reference %q [%d,%d), memefish %q [%d,%d)", i, r.Raw, r.Pos, r.End, a.Raw, a.Pos, a.End))
			return
		case (k == reflex.Ident || k == reflex.Param || k == reflex.String || k == reflex.Bytes || k == reflex.Keyword || k == reflex.Punct) && v != r.Value:
			add(fmt.Sprintf("C14 value %s", r.Kind), fmt.Sprintf("token %d %q: reference value %q, memefish %q", i, r.Raw, r.Value, v))
			return
		case k == reflex.Int && a.Base != r.Base:
			add("C14 int-base", fmt.Sprintf("token %d %q: reference base %d, memefish %d", i, r.Raw, r.Base, a.Base))
			return
		case a.Space != r.Space:
			add("C14 space", fmt.Sprintf("token %d %q: reference space %q, memefish %q", i, r.Raw, r.Space, a.Space))
			return
		case len(a.Comments) != len(r.Comments):
			add("C14 comments count", fmt.Sprintf("token %d %q: reference %d comments, memefish %d", i, r.Raw, len(r.Comments), len(a.Comments)))
			return
		}
		for j := range a.Comments {
			ac, rc := a.Comments[j], r.Comments[j]
			if ac.Raw != rc.Raw || int(ac.Pos) != rc.Pos || ac.Space != rc.Space {
				add("C14 comment", fmt.Sprintf("token %d comment %d: reference %q, memefish %q", i, j, rc.Raw, ac.Raw))
				return
			}
		}
	}
	switch {
	case lerr == nil && rerr != nil:
		add("C14 accepts-invalid: "+rerr.(*reflex.Reject).Msg, fmt.Sprintf("memefish accepts, reference rejects: %v", rerr))
	case lerr != nil && rerr == nil:
		add("C14 rejects-valid", fmt.Sprintf("memefish rejects (%v), reference accepts", lerr))
	case lerr == nil && rerr == nil && len(toks) != len(ref):
		add("C14 token-count", fmt.Sprintf("memefish %d tokens, reference %d", len(toks), len(ref)))
	case lerr != nil && rerr != nil && len(toks) != len(ref):
		add("C14 reject-at-different-token", fmt.Sprintf("memefish fails after %d tokens (%v), reference after %d (%v)", len(toks), lerr, len(ref), rerr))
	}
	return
}

// ---- shared input domains ----

func lexNonTrivial(ctx *harness.Ctx, src string) {
	ctx.Eval(1)
	ref, err := reflex.Lex(src)
	nt := err != nil || len(ref) >= 3
	for _, t := range ref {
		if t.Kind == reflex.String || t.Kind == reflex.Bytes || len(t.Comments) > 0 {
			nt = true
		}
		ctx.Class("tok:" + t.Kind.String())
	}
	if err != nil {
		ctx.Class("rejected")
	} else {
		ctx.Class("accepted")
	}
	if nt {
		ctx.NonTrivial(harness.Hash(src))
	}
}

var lexWords = []string{"a", "AS", "select", ".", "1", "1.5", "(", ")", "[", "]", "@p", "`q`", "'s'", " ", "/*c*/", "-", "e5", "x", "\n", ">", "<", "--c\n"}

var numAlphabet = "019.eE+-xXaf_ "

var litPrefixes = []string{"", "r", "R", "b", "B", "rb", "rB", "Rb", "RB", "br", "bR", "Br", "BR", "bb", "rr", "x"}
var litQuotes = []string{"'", "\"", "'''", "\"\"\"", "`"}
var litEscapes = []string{
	`\a`, `\b`, `\f`, `\n`, `\r`, `\t`, `\v`, `\\`, `\?`, `\"`, `\'`, "\\`", `\101`, `\377`, `\000`, `\x41`, `\XfF`, `A`, `é`, `\U0001F600`, `\U00000041`,
	// invalid ones
	`\e`, `\8`, `\400`, `\18`, `\1`, `\x4`, `\xg1`, `\x`, `\u12`, `\uD800`, `\udfff`, `\U0011`, `\U00110000`, `\U0000D800`, "\\\n", `\ `, `\0`, `\07`,
}

func litBodyParts() []string {
	p := append([]string{}, litEscapes...)
	p = append(p, "a", "", " ", "'", "\"", "`", "''", "\"\"", "\n", "\r", "é", "\xff", ";", "--", "/*", "#", "\\")
	return p
}

// forLiteralMatrix enumerates prefix x quote form x body part x position (this shard's residue class).
func forLiteralMatrix(ctx *harness.Ctx, f func(s string) bool) {
	idx := 0
	body := litBodyParts()
	for _, p := range litPrefixes {
		for _, qf := range litQuotes {
			for _, e := range append(body, "\\u00e9;x", "\\d+;", "a;b") {
				for pos := 0; pos < 6; pos++ {
					idx++
					if idx%ctx.Of != ctx.Shard {
						continue
					}
					var s string
					switch pos {
					case 0:
						s = p + qf + e + qf
					case 1:
						s = p + qf + "a" + e + qf
					case 2:
						s = p + qf + e + "a" + qf + " x"
					case 3:
						s = p + qf + "a" + e // unclosed, escape at EOF
					case 4:
						s = p + qf + e + qf[:1] // partial closer
					case 5:
						s = "a." + p + qf + e + qf + ".b"
					}
					if !f(s) {
						return
					}
				}
			}
		}
	}
}

func runLexProps(ctx *harness.Ctx, oracle harness.Oracle) {
	do := func(t harness.T, leg, src string) bool {
		cs := &harness.Case{Leg: leg, Input: src}
		lexNonTrivial(ctx, src)
		return ctx.Check(t, cs, oracle(ctx, cs))
	}
	limit := func() bool { return ctx.ViolationCount() < 6 }

	n := ctx.Pick(5, 6)
	ctx.Leg("exhaustive-chars", func() {
		enumStrings(lexAlphabet, n, ctx.Shard, ctx.Of, func(s string) bool { do(nil, "exhaustive-chars", s); return limit() })
		ctx.Exhaustive(fmt.Sprintf("all strings of length <=%d over %q", n, lexAlphabet), ctx.ViolationCount() == 0)
	})
	nw := ctx.Pick(4, 5)
	ctx.Leg("exhaustive-words", func() {
		enumSeq(len(lexWords), nw, ctx.Shard, ctx.Of, func(ix []int) bool {
			var b strings.Builder
			for _, i := range ix {
				b.WriteString(lexWords[i])
			}
			do(nil, "exhaustive-words", b.String())
			return limit()
		})
		ctx.Exhaustive(fmt.Sprintf("all sequences of <=%d lexical words from %q", nw, lexWords), ctx.ViolationCount() == 0)
	})
	wsSyms := []string{" ", "\n", "\t", "\r", "\u00a0", "\u3000", "\u2028", "\u0085", "\v", "a", "/*c*/", "--c\n", "\xa0", "\xc2"}
	nws := ctx.Pick(4, 5)
	ctx.Leg("exhaustive-whitespace", func() {
		enumSeq(len(wsSyms), nws, ctx.Shard, ctx.Of, func(ix []int) bool {
			var b strings.Builder
			for _, i := range ix {
				b.WriteString(wsSyms[i])
			}
			do(nil, "exhaustive-whitespace", b.String())
			return limit()
		})
		ctx.Exhaustive(fmt.Sprintf("all sequences of <=%d symbols from ASCII / Unicode whitespace, stray bytes 0xA0 0xC2, an identifier and comments", nws), ctx.ViolationCount() == 0)
	})
	// comment shapes: every string of length <=8 (quick) / <=9 (thorough) over the 7 bytes that open, close and fill comments
	const commentAlphabet = "/*a \n-#"
	nc := ctx.Pick(8, 9)
	ctx.Leg("exhaustive-comments", func() {
		enumStrings(commentAlphabet, nc, ctx.Shard, ctx.Of, func(s string) bool { do(nil, "exhaustive-comments", s); return limit() })
		ctx.Exhaustive(fmt.Sprintf("all strings of length <=%d over %q", nc, commentAlphabet), ctx.ViolationCount() == 0)
	})
	// every Unicode scalar value (and every lone byte >= 0x80) in trivia position: between two tokens, alone, and after a comment
	ctx.Leg("every-rune-as-trivia", func() {
		idx := 0
		for r := rune(0); r <= 0x10FFFF; r++ {
			if r >= 0xD800 && r <= 0xDFFF {
				continue
			}
			idx++
			if idx%ctx.Of != ctx.Shard {
				continue
			}
			c := string(r)
			do(nil, "every-rune-as-trivia", "a"+c+"1")
			if r >= 0x80 || r < 0x21 {
				do(nil, "every-rune-as-trivia", c)
				do(nil, "every-rune-as-trivia", "x /* c */"+c+"-- d\n+ 2")
			}
			if !limit() {
				return
			}
		}
		for b := 0x80; b <= 0xFF; b++ {
			c := string([]byte{byte(b)})
			do(nil, "every-rune-as-trivia", "a"+c+"1")
			do(nil, "every-rune-as-trivia", "a "+c+" 1")
			do(nil, "every-rune-as-trivia", "a"+c+"\xa0"+c)
		}
		ctx.Exhaustive("every Unicode scalar value and every lone byte >= 0x80 between two tokens", ctx.ViolationCount() == 0)
	})
	nn := ctx.Pick(5, 6)
	ctx.Leg("exhaustive-numeric", func() {
		enumStrings(numAlphabet, nn, ctx.Shard, ctx.Of, func(s string) bool { do(nil, "exhaustive-numeric", s); return limit() })
		ctx.Exhaustive(fmt.Sprintf("all strings of length <=%d over %q", nn, numAlphabet), ctx.ViolationCount() == 0)
	})
	ctx.Leg("literal-matrix", func() {
		forLiteralMatrix(ctx, func(s string) bool { do(nil, "literal-matrix", s); return limit() })
		ctx.Exhaustive("literal matrix: 16 prefixes x 5 quote forms x 55 body parts x 6 positions", ctx.ViolationCount() == 0)
	})
	parts := litBodyParts()
	ctx.Rapid("random-literal", ctx.Pick(20000, 300000), func(t *rapid.T) {
		var b strings.Builder
		k := rapid.IntRange(1, 3).Draw(t, "literals")
		for i := 0; i < k; i++ {
			b.WriteString(rapid.SampledFrom([]string{"", " ", "a", "1", ".", "a.", "(", ")."}).Draw(t, "lead"))
			b.WriteString(rapid.SampledFrom(litPrefixes).Draw(t, "prefix"))
			qf := rapid.SampledFrom(litQuotes).Draw(t, "quote")
			b.WriteString(qf)
			m := rapid.IntRange(0, 5).Draw(t, "parts")
			for j := 0; j < m; j++ {
				b.WriteString(rapid.SampledFrom(parts).Draw(t, "part"))
			}
			switch rapid.IntRange(0, 5).Draw(t, "closer") {
			case 0:
			case 1:
				b.WriteString(qf[:1])
			default:
				b.WriteString(qf)
			}
		}
		s := b.String()
		ctx.Sample(map[string]any{"leg": "random-literal", "input": q(s)})
		do(t, "random-literal", s)
	})
	ctx.Rapid("soup", ctx.Pick(20000, 300000), func(t *rapid.T) {
		s := mutate.Soup(t, 40)
		ctx.Sample(map[string]any{"leg": "soup", "input": q(s)})
		do(t, "soup", s)
	})
	ctx.Rapid("many-lines", ctx.Pick(200, 3000), func(t *rapid.T) {
		s, where := drawManyLines(t)
		ctx.Class("many-lines:error-" + where)
		do(t, "many-lines", s)
	})
	ctx.Rapid("sentence", ctx.Pick(3000, 40000), func(t *rapid.T) {
		s, _ := drawSentence(t)
		if rapid.Bool().Draw(t, "mutate") {
			s = mutate.Inject(t, s)
		}
		do(t, "sentence", s)
	})
}

// enumSeq enumerates all index sequences of length <= maxLen over n symbols (sharded).
func enumSeq(n, maxLen, shard, of int, f func(ix []int) bool) {
	ix := make([]int, 0, maxLen)
	var idx int64
	var rec func(depth int) bool
	rec = func(depth int) bool {
		if idx%int64(of) == int64(shard) {
			if !f(ix) {
				return false
			}
		}
		idx++
		if depth == maxLen {
			return true
		}
		for i := 0; i < n; i++ {
			ix = append(ix, i)
			if !rec(depth + 1) {
				return false
			}
			ix = ix[:len(ix)-1]
		}
		return true
	}
	rec(0)
}
