package props

import (
	"github.com/cloudspannerecosystem/memefish/ast"
	"pgregory.net/rapid"
)

type astNode = ast.Node

// Sentence is a valid input with the kind of entry point that should accept it.
type Sentence struct {
	Src    string
	Kind   string // query, ddl, dml, call, expr, type
	Origin string // corpus file name or "G"
}

// genSentence is set by gen_glue_test.go when the grammar generator is linked.
var genSentence func(t *rapid.T) Sentence

// drawValid draws a valid sentence from the corpus or from G.
func drawValid(t *rapid.T) Sentence {
	good := corpusGood()
	if genSentence != nil && rapid.IntRange(0, 2).Draw(t, "source") > 0 {
		return genSentence(t)
	}
	c := good[rapid.IntRange(0, len(good)-1).Draw(t, "corpus")]
	return Sentence{Src: c.Src, Kind: c.Kind, Origin: c.Name}
}

// drawSentence draws a sentence from the whole corpus (including the !bad_ files) or G.
func drawSentence(t *rapid.T) (string, string) {
	if rapid.IntRange(0, 9).Draw(t, "bad") == 0 {
		all := corpus()
		c := all[rapid.IntRange(0, len(all)-1).Draw(t, "corpusAll")]
		return c.Src, c.Kind
	}
	s := drawValid(t)
	return s.Src, s.Kind
}
