package props

import (
	"fmt"
	"strings"

	"pgregory.net/rapid"

	"verif/internal/harness"
	"verif/internal/mutate"
)

// streamOpts scales the shared input streams used by C04, C09, C10 (and C05's weak clauses).
type streamOpts struct {
	shortLen      int // exhaustive short strings (0 = off)
	soup, mutant  int
	nesting       int
	valid         int
	unbalanced    int
	long          int
	entriesPerSrc int // how many entry points each input is given to (0 = all parser entries)
}

// entryFor picks the entry points an input is given to: the ones matching its
// kind plus drawn others.
func drawEntries(t *rapid.T, kind string, n int) []*Entry {
	if n <= 0 || n >= len(entries) {
		return entries
	}
	var out []*Entry
	seen := map[string]bool{}
	for _, e := range entriesForKind(kind) {
		if len(out) < n && !seen[e.Name] {
			out = append(out, e)
			seen[e.Name] = true
		}
	}
	for len(out) < n {
		e := entries[rapid.IntRange(0, len(entries)-1).Draw(t, "entry")]
		if !seen[e.Name] {
			seen[e.Name] = true
			out = append(out, e)
		}
	}
	return out
}

var unbalancedParts = []string{"(", ")", "[", "]", "CASE", "WHEN", "THEN", "END", "ELSE", "<", ">", ">>", "ARRAY<", "STRUCT<", "INT64", ",", "a", "1", "+", "AS", "FROM", "t",
	"SELECT", "{", "}", ";", "UNION ALL", "x.y", "'s'", "/*c*/", "-", "@", "CAST(", "f(", "IN", "NOT", "BETWEEN", "AND", "IS", "NULL", ".", "*", "=>", "->", "|>", "WHERE", "GROUP BY", "ORDER BY", "LIMIT", "OFFSET", "AT", "HAVING", "INTERSECT DISTINCT", "EXCEPT ALL"}

// brokenFragments: statements / expressions that fail in different places (query suffix, select list, expression, type, DDL, DML,
// lexical errors of every kind, unclosed brackets), with literal-only and identifier select lists.
var brokenFragments = []string{
	"SELECT 1 LIMIT", "SELECT 2 LIMIT 'x", "SELECT 1 ORDER BY", "SELECT 'a' ORDER BY \"b", "SELECT 1 UNION ALL", "SELECT 1 UNION ALL SELECT 1a", "SELECT 1 |>", "SELECT 1.5 |> LIMIT 0x",
	"SELECT a FROM t LIMIT", "(SELECT 1) LIMIT `", "SELECT 1 +", "SELECT (1 +)", "SELECT f(", "SELECT a b c", "SELECT * FROM", "SELECT * FROM t WHERE", "SELECT CAST(1 AS",
	"SELECT ARRAY<", "SELECT STRUCT<1>", "1 +", "(1, (2", "a[", "x IN (", "CASE WHEN", "NEW T {a:", "'abc", "\"\\x", "0x", "1a", "/*", "`", "$", "\x00",
	"CREATE TABLE", "CREATE TABLE t (a", "DROP", "ALTER TABLE t ADD", "INSERT INTO t (a) VALUES (1 +)", "UPDATE t SET", "DELETE t", "CALL f(", "@{a=(1 +)} SELECT 1", "SELECT 1", "SELECT a FROM t",
}

// runStreams drives fn over the shared error-rich input streams.
func runStreams(ctx *harness.Ctx, o streamOpts, fn func(t harness.T, leg string, e *Entry, src string)) {
	all := func(t harness.T, leg, src string) {
		for _, e := range entries {
			fn(t, leg, e, src)
		}
	}
	if o.shortLen > 0 {
		ctx.Leg("exhaustive-short", func() {
			enumStrings(lexAlphabet, o.shortLen, ctx.Shard, ctx.Of, func(s string) bool {
				all(nil, "exhaustive-short", s)
				return ctx.ViolationCount() < 8
			})
			ctx.Exhaustive(fmt.Sprintf("all strings of length <=%d over the 24-symbol lexical alphabet x 9 parser entry points", o.shortLen), ctx.ViolationCount() == 0)
		})
	}
	ctx.Leg("error-sites", func() {
		for i, src := range errorSiteVariants() {
			if i%ctx.Of == ctx.Shard {
				all(nil, "error-sites", src)
			}
		}
	})
	ctx.Leg("hostile-fixed", func() {
		idx := 0
		for _, h := range mutate.Hostile {
			for _, src := range []string{h, "SELECT 1; " + h, h + "; SELECT 1", "(" + h, "SELECT " + h, "SELECT 1 + " + h, "CAST(1 AS " + h, "ARRAY<" + h,
				"SELECT * FROM " + h, "CREATE TABLE t (" + h, "INSERT INTO t (a) VALUES (" + h, "@{a=" + h, "@{a=(" + h + ")} DELETE t x y", "@{a=[" + h + "]} UPDATE t SET", "SELECT a" + h, "f(" + h + ")", "[" + h + "]", "CASE WHEN " + h + " THEN 1 END"} {
				idx++
				if idx%ctx.Of != ctx.Shard {
					continue
				}
				all(nil, "hostile-fixed", src)
			}
		}
	})
	// pairs of broken fragments: state left behind by one recovery (snapshots, counters, pooled buffers) meets the next one.
	// Every ordered pair of the pool, joined as two statements, two list elements or two operands.
	ctx.Leg("broken-pairs", func() {
		idx := 0
		for _, f1 := range brokenFragments {
			for _, f2 := range brokenFragments {
				for _, join := range []string{"; ", ", ", "\n;\n"} {
					idx++
					if idx%ctx.Of != ctx.Shard {
						continue
					}
					src := f1 + join + f2
					for _, e := range entries {
						if e.List || idx%3 == 0 {
							fn(nil, "broken-pairs", e, src)
						}
					}
				}
			}
		}
	})
	ctx.Rapid("soup", o.soup, func(t *rapid.T) {
		src := mutate.Soup(t, 24)
		ctx.Sample(map[string]any{"leg": "soup", "input": q(src)})
		for _, e := range drawEntries(t, "", o.entriesPerSrc) {
			fn(t, "soup", e, src)
		}
	})
	ctx.Rapid("unbalanced", o.unbalanced, func(t *rapid.T) {
		n := rapid.IntRange(1, 14).Draw(t, "n")
		var b strings.Builder
		for i := 0; i < n; i++ {
			b.WriteString(rapid.SampledFrom(unbalancedParts).Draw(t, "part"))
			if rapid.IntRange(0, 5).Draw(t, "glue") > 0 {
				b.WriteString(" ")
			}
		}
		src := b.String()
		ctx.Sample(map[string]any{"leg": "unbalanced", "input": q(src)})
		for _, e := range drawEntries(t, "", o.entriesPerSrc) {
			fn(t, "unbalanced", e, src)
		}
	})
	ctx.Rapid("mutant", o.mutant, func(t *rapid.T) {
		base, kind := drawSentence(t)
		var src string
		switch rapid.IntRange(0, 4).Draw(t, "mutation") {
		case 0, 1:
			src = mutate.Tokens(t, base, 3)
		case 2:
			src = mutate.Truncate(t, base)
		case 3:
			src = mutate.Inject(t, base)
		default:
			src = mutate.Inject(t, mutate.Tokens(t, base, 2))
		}
		if len(src) > 4096 {
			src = src[:4096]
		}
		if fp := farPrefix(t, 400, true); fp != "" {
			src = fp + src
		}
		ctx.Sample(map[string]any{"leg": "mutant", "input": q(trunc(src, 300))})
		for _, e := range drawEntries(t, kind, o.entriesPerSrc) {
			fn(t, "mutant", e, src)
		}
	})
	ctx.Rapid("clause-permutations", o.mutant/4, func(t *rapid.T) {
		src, kind := drawClausePermutation(t)
		if len(src) > 4096 {
			src = src[:4096]
		}
		for _, e := range drawEntries(t, kind, o.entriesPerSrc) {
			fn(t, "clause-permutations", e, src)
		}
	})
	// long inputs: many recoveries in one parse, very long lists, one huge Bad node
	ctx.Rapid("long", o.long, func(t *rapid.T) {
		var src, kind string
		switch rapid.IntRange(0, 4).Draw(t, "longkind") {
		case 4:
			src, _ = drawManyLines(t) // hundreds / thousands of lines, an error at offset 0, at a line start or at the end
		case 0:
			frag := rapid.SampledFrom([]string{"SELECT 1 +", "1 +", "(1 +)", "a b", "CREATE TABLE", "x y z", "(a, b)", "SELECT (1, 2), (3, 4)", "f(", "CAST(1 AS", "DELETE t", "a[", "@{a=(1 +)} DELETE t WHERE",
				"SELECT 1", "(1, (2))", "INSERT INTO t (a) VALUES (1 +)", "STRUCT<1>", "a.", "x IN ("}).Draw(t, "frag")
			src = mutate.Repeat(t, frag, 320)
		case 1:
			c := drawGenLong(t, "", 2)
			src, kind = c.Text, c.S.Kind
		case 2:
			c := drawGenLong(t, "", 2)
			src, kind = mutate.DropAll(t, c.Text), c.S.Kind
		default:
			c := drawGenLong(t, "", 1)
			src, kind = mutate.Tokens(t, c.Text, 2), c.S.Kind
		}
		if len(src) > 20000 {
			src = src[:20000]
		}
		ctx.Sample(map[string]any{"leg": "long", "bytes": len(src), "input": q(trunc(src, 160))})
		for _, e := range drawEntries(t, kind, 3) {
			fn(t, "long", e, src)
		}
	})
	ctx.Rapid("valid", o.valid, func(t *rapid.T) {
		s := drawValid(t)
		src := s.Src
		if rapid.IntRange(0, 3).Draw(t, "list") == 0 {
			s2 := drawValid(t)
			src = strings.TrimRight(src, " \n;") + rapid.SampledFrom([]string{";", "; ", ";\n", " ;; "}).Draw(t, "sep") + s2.Src
		}
		for _, e := range drawEntries(t, s.Kind, o.entriesPerSrc) {
			fn(t, "valid", e, src)
		}
	})
	ctx.Rapid("nesting", o.nesting, func(t *rapid.T) {
		src := mutate.Nesting(t, 300)
		for _, e := range drawEntries(t, "", 3) {
			fn(t, "nesting", e, src)
		}
	})
}
