package props

import (
	"fmt"
	"os"
	"path/filepath"
	"reflect"
	"runtime/debug"
	"sort"
	"strconv"
	"strings"
	"sync"
	"time"

	"verif/internal/harness"

	"pgregory.net/rapid"

	"github.com/cloudspannerecosystem/memefish"
	"github.com/cloudspannerecosystem/memefish/ast"
	"github.com/cloudspannerecosystem/memefish/token"
)

// repoDir is the memefish tree the binary was built against.
func repoDir() string {
	if r := os.Getenv("VERIF_REPO"); r != "" {
		return r
	}
	return "/repo"
}

// Entry is one public parser entry point behind a uniform signature.
type Entry struct {
	Name   string
	List   bool
	Kind   string // statement, query, expr, type, ddl, dml
	Single string // for list entries: the matching single-node entry
	Call   func(src string) ([]ast.Node, error)
}

func one(n ast.Node, err error) ([]ast.Node, error) { return []ast.Node{n}, err }

func isNilNode(n ast.Node) bool {
	if n == nil {
		return true
	}
	v := reflect.ValueOf(n)
	return v.Kind() == reflect.Ptr && v.IsNil()
}

var entries = []*Entry{
	{Name: "ParseStatement", Kind: "statement", Call: func(s string) ([]ast.Node, error) {
		n, err := memefish.ParseStatement("", s)
		return one(n, err)
	}},
	{Name: "ParseQuery", Kind: "query", Call: func(s string) ([]ast.Node, error) {
		n, err := memefish.ParseQuery("", s)
		if n == nil {
			return []ast.Node{nil}, err
		}
		return one(n, err)
	}},
	{Name: "ParseExpr", Kind: "expr", Call: func(s string) ([]ast.Node, error) {
		n, err := memefish.ParseExpr("", s)
		return one(n, err)
	}},
	{Name: "ParseType", Kind: "type", Call: func(s string) ([]ast.Node, error) {
		n, err := memefish.ParseType("", s)
		return one(n, err)
	}},
	{Name: "ParseDDL", Kind: "ddl", Call: func(s string) ([]ast.Node, error) {
		n, err := memefish.ParseDDL("", s)
		return one(n, err)
	}},
	{Name: "ParseDML", Kind: "dml", Call: func(s string) ([]ast.Node, error) {
		n, err := memefish.ParseDML("", s)
		return one(n, err)
	}},
	{Name: "ParseStatements", Kind: "statement", List: true, Single: "ParseStatement", Call: func(s string) ([]ast.Node, error) {
		ns, err := memefish.ParseStatements("", s)
		out := make([]ast.Node, len(ns))
		for i, n := range ns {
			out[i] = n
		}
		return out, err
	}},
	{Name: "ParseDDLs", Kind: "ddl", List: true, Single: "ParseDDL", Call: func(s string) ([]ast.Node, error) {
		ns, err := memefish.ParseDDLs("", s)
		out := make([]ast.Node, len(ns))
		for i, n := range ns {
			out[i] = n
		}
		return out, err
	}},
	{Name: "ParseDMLs", Kind: "dml", List: true, Single: "ParseDML", Call: func(s string) ([]ast.Node, error) {
		ns, err := memefish.ParseDMLs("", s)
		out := make([]ast.Node, len(ns))
		for i, n := range ns {
			out[i] = n
		}
		return out, err
	}},
}

var entryByName = func() map[string]*Entry {
	m := map[string]*Entry{}
	for _, e := range entries {
		m[e.Name] = e
	}
	return m
}()

var entryNames = func() []string {
	var out []string
	for _, e := range entries {
		out = append(out, e.Name)
	}
	return out
}()

// entriesForKind lists the entry points that should accept a sentence of kind k.
func entriesForKind(k string) []*Entry {
	switch k {
	case "query":
		return []*Entry{entryByName["ParseQuery"], entryByName["ParseStatement"], entryByName["ParseStatements"]}
	case "ddl":
		return []*Entry{entryByName["ParseDDL"], entryByName["ParseStatement"], entryByName["ParseStatements"], entryByName["ParseDDLs"]}
	case "dml":
		return []*Entry{entryByName["ParseDML"], entryByName["ParseStatement"], entryByName["ParseStatements"], entryByName["ParseDMLs"]}
	case "call":
		return []*Entry{entryByName["ParseStatement"], entryByName["ParseStatements"]}
	case "expr":
		return []*Entry{entryByName["ParseExpr"]}
	case "type":
		return []*Entry{entryByName["ParseType"]}
	}
	return nil
}

// Outcome of one guarded call.
type Outcome struct {
	Nodes    []ast.Node
	Err      error
	Panicked bool
	PanicVal any
	Stack    string
}

// guarded calls f under recover.
func guarded(f func() ([]ast.Node, error)) (o Outcome) {
	defer func() {
		if r := recover(); r != nil {
			o.Panicked = true
			o.PanicVal = r
			o.Stack = string(debug.Stack())
		}
	}()
	o.Nodes, o.Err = f()
	return
}

// curCtx is the context of the running property (set by TestProp); it arms the hang watchdog
// around every entry-point call, so a non-terminating parse ends the shard in seconds
// (inconclusive for every property except C03, which confirms it in isolation and reports it).
var curCtx *harness.Ctx

// Unwatched calls the entry point under recover only: no watchdog, hence no lock shared between goroutines. C18 must use
// it - the watchdog's mutex orders all calls of all goroutines (a happens-before edge per call), and the race detector then
// only reports accesses of calls that truly overlap in time.
func (e *Entry) Unwatched(src string) Outcome {
	return guarded(func() ([]ast.Node, error) { return e.Call(src) })
}

func (e *Entry) Guarded(src string) Outcome {
	if curCtx != nil {
		done := curCtx.Guard(&harness.Case{Entry: e.Name, Input: src}, 20*time.Second)
		defer done()
	}
	return guarded(func() ([]ast.Node, error) { return e.Call(src) })
}

// panicSite names the innermost memefish frame of a panic stack (function name
// only): the root cause label used in signatures.
func panicSite(stack string) string {
	lines := strings.Split(stack, "\n")
	for _, ln := range lines {
		ln = strings.TrimSpace(ln)
		if !strings.HasPrefix(ln, "github.com/cloudspannerecosystem/memefish") {
			continue
		}
		// e.g. github.com/cloudspannerecosystem/memefish.(*Lexer).consumeQuotedContent(0x..., ...)
		if i := strings.LastIndex(ln, "("); i > 0 {
			ln = ln[:i]
		}
		ln = strings.TrimPrefix(ln, "github.com/cloudspannerecosystem/memefish")
		ln = strings.TrimPrefix(ln, "/")
		ln = strings.TrimPrefix(ln, ".")
		if strings.Contains(ln, "func1") || strings.Contains(ln, "func2") {
			continue // deferred recover wrappers that re-panic
		}
		return ln
	}
	return "?"
}

func panicKind(v any) string {
	switch x := v.(type) {
	case *memefish.Error:
		return "*memefish.Error"
	case error:
		s := x.Error()
		switch {
		case strings.Contains(s, "index out of range"):
			return "runtime:index out of range"
		case strings.Contains(s, "slice bounds out of range"):
			return "runtime:slice bounds out of range"
		case strings.Contains(s, "nil pointer dereference"):
			return "runtime:nil pointer dereference"
		}
		return "error:" + trunc(s, 40)
	case string:
		return "string:" + trunc(x, 40)
	}
	return fmt.Sprintf("%T", v)
}

// q renders an input for evidence samples and messages: Go-quoted so that
// invalid UTF-8 and control bytes survive JSON.
func q(s string) string { return strconv.Quote(s) }

func trunc(s string, n int) string {
	if len(s) > n {
		return s[:n] + "..."
	}
	return s
}

// ---- corpus ----

type CorpusFile struct {
	Name  string
	Dir   string // query, ddl, dml, expr, statement
	Kind  string // query, ddl, dml, expr, statement(call)
	Src   string
	Bad   bool
	Entry string
}

var (
	corpusOnce sync.Once
	corpusAll  []CorpusFile
)

func corpus() []CorpusFile {
	corpusOnce.Do(func() {
		base := filepath.Join(repoDir(), "testdata", "input")
		for _, d := range []struct{ dir, kind, entry string }{
			{"query", "query", "ParseQuery"}, {"ddl", "ddl", "ParseDDL"}, {"dml", "dml", "ParseDML"},
			{"expr", "expr", "ParseExpr"}, {"statement", "call", "ParseStatement"},
		} {
			files, _ := os.ReadDir(filepath.Join(base, d.dir))
			for _, f := range files {
				if !strings.HasSuffix(f.Name(), ".sql") {
					continue
				}
				b, err := os.ReadFile(filepath.Join(base, d.dir, f.Name()))
				if err != nil {
					continue
				}
				corpusAll = append(corpusAll, CorpusFile{Name: d.dir + "/" + f.Name(), Dir: d.dir, Kind: d.kind, Src: string(b),
					Bad: strings.HasPrefix(f.Name(), "!bad_"), Entry: d.entry})
			}
		}
		sort.Slice(corpusAll, func(i, j int) bool { return corpusAll[i].Name < corpusAll[j].Name })
	})
	return corpusAll
}

func corpusGood() []CorpusFile {
	var out []CorpusFile
	for _, c := range corpus() {
		if !c.Bad {
			out = append(out, c)
		}
	}
	return out
}

// ---- memefish lexing helper ----

// mfLex tokenises with memefish.Lexer (NextToken). The last token is <eof> on success.
func mfLex(src string) (toks []token.Token, err error) {
	l := &memefish.Lexer{File: &token.File{Buffer: src}}
	for i := 0; i <= len(src)+1; i++ {
		if e := l.NextToken(); e != nil {
			return toks, e
		}
		toks = append(toks, l.Token)
		if l.Token.Kind == token.TokenEOF {
			return toks, nil
		}
	}
	return toks, fmt.Errorf("lexer made no progress")
}

// mfLexRecovery tokenises with the recovery-mode lexer step (verif hook); it never fails.
func mfLexRecovery(src string) (toks []token.Token) {
	l := &memefish.Lexer{File: &token.File{Buffer: src}}
	for i := 0; i <= len(src)+1; i++ {
		l.VerifNextTokenNoPanic()
		toks = append(toks, l.Token)
		if l.Token.Kind == token.TokenEOF {
			return toks
		}
	}
	return toks
}

func sqlOf(nodes []ast.Node) (s string, panicked any) {
	defer func() {
		if r := recover(); r != nil {
			panicked = r
		}
	}()
	var parts []string
	for _, n := range nodes {
		if isNilNode(n) {
			continue
		}
		parts = append(parts, n.SQL())
	}
	return strings.Join(parts, ";\n"), nil
}

// lastStep returns the last field step of a reflection path (".A.B[3]" -> "B[3]").
func lastStep(p string) string {
	if i := strings.LastIndex(p, "."); i >= 0 {
		return p[i+1:]
	}
	return p
}

// ---- many-line inputs (line tables, line-number formatting, per-line caches) ----

var manyLineCounts = []int{1, 2, 3, 9, 10, 11, 63, 64, 65, 66, 99, 100, 101, 127, 128, 129, 255, 256, 257, 511, 512, 513, 998, 999, 1000, 1001, 1002, 1023, 1024, 1025, 2048, 4096, 4097}
var manyLinePieces = []string{"SELECT 1;", "SELECT 1;", "", "a", "-- c", "x;y", "'s'", ";", "/* c */", "SELECT 1", "SELECT a, b FROM t;", "\t", "é", "# c", "DROP TABLE t;", "CREATE SEQUENCE s OPTIONS (sequence_kind = 'bit_reversed_positive');"}

// multi-line constructs that stay open until the end of input (their error range spans lines), and one-line lexical errors
var manyLineBreakers = []string{"/*", "/* TODO\n more", "'''x", "\"\"\"x\ny", "'abc", "`q", "\x00", "$", "1a", "0x", "\"\\x", "@{", "(", "SELECT (", "b'''\\u1", "r\"", "/*/"}

// drawManyLines draws a text with a drawn number of short lines (boundary counts: 64, 100, 128, 256, 1000, 1024, 4096 ...)
// and optionally one lexical / syntactic error at offset 0, at the start of a drawn line, or at the very end.
// where is "", "start", "middle" or "end".
func drawManyLines(t *rapid.T) (text, where string) {
	n := rapid.SampledFrom(manyLineCounts).Draw(t, "lines")
	if rapid.IntRange(0, 4).Draw(t, "free-lines") == 0 {
		n = rapid.IntRange(1, 1100).Draw(t, "n-lines")
	}
	nl := rapid.SampledFrom([]string{"\n", "\n", "\n", "\r\n", "\n\n"}).Draw(t, "newline")
	dom := rapid.SampledFrom(manyLinePieces).Draw(t, "dominant-line")
	if n*len(dom) > 48000 {
		dom = "SELECT 1;" // keep the text below ~48 KiB
	}
	where = rapid.SampledFrom([]string{"", "start", "middle", "end", "end", "end"}).Draw(t, "break-where")
	breaker := rapid.SampledFrom(manyLineBreakers).Draw(t, "breaker")
	at := rapid.IntRange(0, n-1).Draw(t, "break-line")
	var b strings.Builder
	if where == "start" {
		b.WriteString(breaker)
		if rapid.Bool().Draw(t, "break-own-line") {
			b.WriteString(nl)
		}
	}
	for i := 0; i < n; i++ {
		if where == "middle" && i == at {
			b.WriteString(breaker)
		}
		if rapid.IntRange(0, 5).Draw(t, "other-line") == 0 {
			b.WriteString(rapid.SampledFrom(manyLinePieces).Draw(t, "line"))
		} else {
			b.WriteString(dom)
		}
		b.WriteString(nl)
	}
	if where == "end" {
		b.WriteString(breaker)
		if rapid.Bool().Draw(t, "trailing-newline") {
			b.WriteString(nl)
		}
	}
	return b.String(), where
}

// ---- inputs with one very long list (or a long operator chain next to a list) ----

var longListCounts = []int{3, 64, 100, 120, 127, 128, 129, 130, 200, 255, 256, 257, 300, 511, 512, 513, 520, 700, 1023, 1024, 1025}

// drawLongListSource draws an input whose tree holds one list of a drawn boundary length (IN list, call arguments, array,
// select list, VALUES rows, ORDER BY, path, struct fields, table columns, statement list) or a long left-deep operator chain
// ending / starting in a short list. It returns the source and the name of a matching entry point.
func drawLongListSource(t *rapid.T) (src, entry, form string) {
	n := rapid.SampledFrom(longListCounts).Draw(t, "list-length")
	if rapid.IntRange(0, 4).Draw(t, "free-length") == 0 {
		n = rapid.IntRange(2, 1100).Draw(t, "n-elements")
	}
	elems := func(f func(i int) string, sep string) string {
		var b strings.Builder
		for i := 0; i < n; i++ {
			if i > 0 {
				b.WriteString(sep)
			}
			b.WriteString(f(i))
		}
		return b.String()
	}
	num := func(i int) string { return strconv.Itoa(1000 + i) }
	form = rapid.SampledFrom([]string{"in", "call", "array", "select", "values", "order-by", "path", "struct-type", "columns", "statements", "ddls", "chain-then-list", "list-then-chain", "tuple", "case", "with", "braced", "union"}).Draw(t, "long-form")
	switch form {
	case "in":
		return "k IN (" + elems(num, ", ") + ")", "ParseExpr", form
	case "call":
		return "f(" + elems(num, ", ") + ")", "ParseExpr", form
	case "array":
		return "[" + elems(num, ", ") + "]", "ParseExpr", form
	case "tuple":
		return "(" + elems(num, ", ") + ", 0)", "ParseExpr", form
	case "case":
		return "CASE " + elems(func(i int) string { return "WHEN c = " + num(i) + " THEN " + num(i) }, " ") + " END", "ParseExpr", form
	case "braced":
		return "NEW T {" + elems(func(i int) string { return "f" + num(i) + ": " + num(i) }, ", ") + "}", "ParseExpr", form
	case "select":
		return "SELECT " + elems(func(i int) string { return "c" + num(i) }, ", ") + " FROM t", "ParseQuery", form
	case "order-by":
		return "SELECT 1 FROM t ORDER BY " + elems(func(i int) string { return "c" + num(i) }, ", "), "ParseQuery", form
	case "with":
		return "WITH " + elems(func(i int) string { return "w" + num(i) + " AS (SELECT 1)" }, ", ") + " SELECT 1", "ParseQuery", form
	case "union":
		return elems(func(i int) string { return "SELECT " + num(i) }, " UNION ALL "), "ParseQuery", form
	case "values":
		return "INSERT INTO t (a) VALUES " + elems(func(i int) string { return "(" + num(i) + ")" }, ", "), "ParseDML", form
	case "path":
		return elems(func(i int) string { return "p" + num(i) }, "."), "ParseExpr", form
	case "struct-type":
		return "STRUCT<" + elems(func(i int) string { return "f" + num(i) + " INT64" }, ", ") + ">", "ParseType", form
	case "columns":
		return "CREATE TABLE t (" + elems(func(i int) string { return "c" + num(i) + " INT64" }, ", ") + ") PRIMARY KEY (c1000)", "ParseDDL", form
	case "statements":
		return elems(func(i int) string { return "SELECT " + num(i) }, ";\n"), "ParseStatements", form
	case "ddls":
		return elems(func(i int) string { return "DROP TABLE t" + num(i) }, ";\n"), "ParseDDLs", form
	case "chain-then-list":
		k := rapid.IntRange(1, 12).Draw(t, "short-list")
		var b strings.Builder
		b.WriteString("1")
		for i := 1; i < n; i++ {
			b.WriteString(" + 1")
		}
		b.WriteString(" + f(")
		for i := 0; i < k; i++ {
			if i > 0 {
				b.WriteString(", ")
			}
			b.WriteString(num(i))
		}
		b.WriteString(")")
		return b.String(), "ParseExpr", form
	default: // list-then-chain
		k := rapid.IntRange(1, 12).Draw(t, "short-list")
		var b strings.Builder
		b.WriteString("f(")
		for i := 0; i < k; i++ {
			if i > 0 {
				b.WriteString(", ")
			}
			b.WriteString(num(i))
		}
		b.WriteString(")")
		for i := 1; i < n; i++ {
			b.WriteString(" + 1")
		}
		return b.String(), "ParseExpr", form
	}
}

// ---- one input per special error site of the parser (messages that ordinary mutants rarely reach) ----

var errorSiteInputs = []string{
	"SELECT 1 UNION ALL SELECT 2 INTERSECT ALL SELECT 3",
	"SELECT a,\n b\nFROM t\nUNION DISTINCT (SELECT 1, 2)\nUNION DISTINCT SELECT 3, 4\nUNION ALL SELECT 5, 6",
	"@{a=1} CREATE TABLE t (a INT64) PRIMARY KEY (a)",
	"FROM t ORDER BY a", "FROM t LIMIT 1", "SELECT 1 |> FOO x", "WITH a AS (SELECT 1) WITH b", "SELECT 1 UNION SELECT 2",
	"SELECT * FROM t TABLESAMPLE FOO (1 ROWS)", "SELECT * FROM t TABLESAMPLE BERNOULLI (1 FOO)", "SELECT * FROM a JOIN b FOO", "SELECT * FROM 1",
	"a IS FOO", "a NOT FOO b", "x IN y", "ANY_VALUE(x HAVING FOO y)", "CAST(1 AS 2)", "SAFE_CAST(1, 2)", "NEW T {a}", "NEW T [", "NEW T {a b}", "ARRAY<INT64>(1)", "STRUCT<INT64>[1]",
	"`SAFE_CAST`(1 AS INT64)", "`INSERT` INTO t (a) VALUES (1)", "INSERT `INTO` t (a) VALUES (1)", "CAST(1 AS `FOO`<INT64>)",
	"DROP FOO x", "CREATE FOO", "ALTER FOO", "CREATE OR REPLACE FOO", "FOO", "CREATE VIEW v SQL SECURITY FOO AS SELECT 1",
	"ALTER TABLE t ADD FOO", "ALTER TABLE t DROP", "ALTER TABLE t ALTER COLUMN c FOO", "ALTER TABLE t FOO", "ALTER TABLE t SET ON DELETE FOO",
	"ALTER CHANGE STREAM s FOO", "ALTER CHANGE STREAM s SET FOO", "ALTER SEQUENCE s FOO", "ALTER SEQUENCE s SET FOO", "CREATE SEQUENCE s FOO", "CREATE CHANGE STREAM s FOO",
	"GRANT FOO ON TABLE t TO ROLE r", "GRANT SELECT ON FOO t TO ROLE r", "REVOKE FOO",
	"CREATE PROPERTY GRAPH g NODE TABLES (t LABEL a FOO)", "CREATE TABLE t (a FOO(1)) PRIMARY KEY (a)", "CREATE TABLE t (a INT64, CONSTRAINT c FOO) PRIMARY KEY (a)",
	"CREATE TABLE t (a INT64) PRIMARY KEY (a), ROW DELETION POLICY (FOO(a, INTERVAL 1 DAY))", "CREATE INDEX i ON t (a) FOO",
	"SELECT 1 LIMIT 'x'", "SELECT 1 LIMIT 1 OFFSET x", "SELECT * FROM t TABLESAMPLE RESERVOIR ('x' ROWS)", "SELECT 1 LIMIT CAST(1 AS STRING)",
	"INSERT OR FOO t (a) VALUES (1)", "INSERT t (a) FOO", "UPDATE t FOO", "DELETE t WHERE TRUE THEN RETURN WITH FOO *", "CALL f(1) FOO",
	"SELECT EXTRACT(DAY FOO x)", "SELECT x[FOO(1)]", "SELECT INTERVAL 1 FOO BAR", "SELECT IF(1)", "SELECT CASE END", "SELECT (1, ", "SELECT ((SELECT 1",
}

// typeSiteInputs: every type-like text in every type position (most combinations are errors with their own message: a
// parameterised or nested type where only a scalar one may stand, a literal or punctuation where a type name must stand ...).
var typeSiteTypes = []string{"INT64", "STRING(MAX)", "BYTES(10)", "STRING", "ARRAY<INT64>", "ARRAY<STRING(MAX)>", "ARRAY<ARRAY<INT64>>", "ARRAY<STRUCT<x INT64>>", "STRUCT<x INT64, STRING>",
	"ARRAY<1>", "ARRAY<'x'>", "ARRAY<(>", "ARRAY<>", "STRUCT<>", "FOO", "FOO(1)", "p.q", "INT64(1)", "TOKENLIST", "ARRAY<FLOAT32>(vector_length=>2)", "STRING(FOO)", "1", "'x'", "ARRAY"}

var typeSitePositions = []string{"CREATE TABLE t (a %s) PRIMARY KEY (a)", "CREATE TABLE t (a INT64, b %s AS (a) STORED) PRIMARY KEY (a)", "ALTER TABLE t ADD COLUMN c %s", "ALTER TABLE t ALTER COLUMN c %s NOT NULL",
	"SELECT CAST(x AS %s)", "SELECT ARRAY<%s>[]", "SELECT STRUCT<a %s>(1)", "CREATE MODEL m INPUT (a %s) OUTPUT (b INT64) REMOTE"}

var typeSiteInputs = func() []string {
	var out []string
	for _, pos := range typeSitePositions {
		for _, ty := range typeSiteTypes {
			out = append(out, fmt.Sprintf(pos, ty))
		}
	}
	return out
}()

// sizeProbeInputs: (a) sibling sub-expressions below 200 ... 1500 levels of parentheses, clean and with two errors at the bottom
// (depth guards, what happens beyond them); (b) errors whose range spans lines, starting at column 0 ... 5000 with a following line
// of 0 ... 4500 bytes (excerpts of long lines); (c) the CAST(... AS INT64) / literal forms of LIMIT, OFFSET and TABLESAMPLE sizes
// with an operand of every literal kind.
var sizeProbeInputs = func() []string {
	var out []string
	for _, k := range []int{200, 999, 1000, 1001, 1500} {
		o, c := strings.Repeat("(", k), strings.Repeat(")", k)
		out = append(out, o+"[(1), (2)]"+c, o+"f((1), (2), [3])"+c, o+"[(1 +), (2 +)]"+c, "SELECT "+o+"(1, (2 +), (3 +))"+c)
	}
	for _, a := range []int{0, 150, 250, 400, 1000, 5000} {
		for _, b := range []int{0, 150, 210, 222, 1000, 4500} {
			for _, opener := range []string{"'''abc", "/* c", "SELECT \"\"\"x"} {
				out = append(out, strings.Repeat(" ", a)+opener+"\n"+strings.Repeat("y", b)+"\n")
			}
		}
	}
	for _, v := range []string{"1", "1.5", ".5", "'1'", "NULL", "@p", "-1", "x", "TRUE", "0x1F", "CAST(1 AS INT64)"} {
		out = append(out, "SELECT 1 LIMIT CAST("+v+" AS INT64)", "SELECT 1 LIMIT 1 OFFSET CAST("+v+" AS INT64)", "SELECT 1 LIMIT "+v+" OFFSET "+v,
			"SELECT * FROM t TABLESAMPLE BERNOULLI (CAST("+v+" AS FLOAT64) PERCENT)", "SELECT * FROM t TABLESAMPLE RESERVOIR ("+v+" ROWS)", "(SELECT 1 LIMIT CAST("+v+" AS INT64)) UNION ALL SELECT 2")
	}
	return out
}()

// errorSiteVariants: each input alone, shifted to another line / column, and after another statement.
func errorSiteVariants() []string {
	var out []string
	for _, s := range errorSiteInputs {
		out = append(out, s, "\n\n   "+s, "SELECT 1;\n"+s, s+" ;\n"+s)
	}
	for _, s := range typeSiteInputs { // (after the others: callers index the first len(errorSiteInputs)*4 entries)
		out = append(out, s, "SELECT 1;\n"+s)
	}
	out = append(out, sizeProbeInputs...)
	return out
}

// farPrefix returns, once in `every` draws, a block of white space / comments / empty statements of 64-140 KiB, so that the
// input proper starts beyond byte offsets 2^15, 2^16, 2^17 (absolute-offset thresholds, narrow integer types); otherwise "".
func farPrefix(t *rapid.T, every int, semicolons bool) string {
	if rapid.IntRange(0, every-1).Draw(t, "far-prefix") != 0 {
		return ""
	}
	n := rapid.SampledFrom([]int{32760, 65530, 65536, 65540, 70000, 131070, 131080}).Draw(t, "far-bytes")
	kinds := []string{"spaces", "newlines", "comment", "line-comments"}
	if semicolons {
		kinds = append(kinds, "statements", "semicolons")
	}
	switch rapid.SampledFrom(kinds).Draw(t, "far-kind") {
	case "spaces":
		return strings.Repeat(" ", n)
	case "newlines":
		return strings.Repeat(" \n", n/2)
	case "comment":
		return "/*" + strings.Repeat("x", n) + "*/ "
	case "line-comments":
		return strings.Repeat("-- c\n", n/5)
	case "statements":
		return strings.Repeat("DELETE FROM t WHERE TRUE;\n", min(n, 66000)/26+1)
	default:
		return strings.Repeat(";", min(n, 66000)/8) + strings.Repeat(" ", min(n, 66000)*7/8)
	}
}

// ---- exhaustive size sweep: each template with its repeated part at EVERY size 0..sweepMax ----
//
// Thresholds (look-ahead windows, caps, chunk sizes, pre-allocated buffers) sit at some token count; a generator that draws
// sizes from a few boundary values only meets the ones it guessed. The sweep guesses nothing: every template is instantiated
// with every n in 0..sweepMax. %L = n+1 integers, %F = n+1 struct fields, %T = n+1 pairs, %P = a chain of n "+ 1",
// %( / %) = n opening / closing parentheses.

const sweepMax = 300

var sweepTemplates = []struct{ entry, text string }{
	{"ParseExpr", "((SELECT a FROM t JOIN u ON TRUE JOIN v ON TRUE LEFT JOIN w ON TRUE WHERE a IN (%L)) UNION ALL (SELECT 2))"},
	{"ParseQuery", "SELECT * FROM ((SELECT a FROM t JOIN u USING (a) WHERE a IN (%L)) UNION ALL (SELECT 2)) AS s"},
	{"ParseExpr", "x IN ((SELECT a FROM t JOIN u ON TRUE WHERE b IN (%L)) INTERSECT ALL (SELECT 1))"},
	{"ParseExpr", "((SELECT %L) ORDER BY 1)"}, {"ParseExpr", "((SELECT %L FROM t LEFT JOIN u ON TRUE) LIMIT 1)"}, {"ParseExpr", "f((SELECT %L))"}, {"ParseExpr", "(((SELECT %L)))"},
	{"ParseExpr", "(%L)"}, {"ParseExpr", "[%L]"}, {"ParseExpr", "f(%L)"}, {"ParseExpr", "k IN (%L)"}, {"ParseExpr", "(a, b) IN (%T)"}, {"ParseExpr", "STRUCT(%L)"},
	{"ParseExpr", "CAST(x AS STRUCT<%F>)"}, {"ParseExpr", "1 %P"}, {"ParseExpr", "%(1%)"}, {"ParseExpr", "%((SELECT 1)%)"}, {"ParseExpr", "a %P IN (%L)"},
	{"ParseQuery", "SELECT %L FROM t"}, {"ParseQuery", "SELECT 1 FROM t WHERE a IN (%L) ORDER BY b LIMIT 1"}, {"ParseQuery", "WITH a AS (SELECT %L) SELECT * FROM a"},
	{"ParseQuery", "@{a=1} SELECT %L"}, {"ParseQuery", "SELECT * FROM %(t JOIN u ON TRUE%)"}, {"ParseQuery", "%(SELECT 1%) UNION ALL SELECT 2"}, {"ParseQuery", "SELECT 1 %P FROM t JOIN u ON a %P = 2"},
	{"ParseDML", "INSERT INTO t (a) VALUES (%L)"}, {"ParseDML", "INSERT INTO t (a, b) VALUES %T"}, {"ParseDML", "UPDATE t SET a = 1 %P WHERE b IN (%L)"},
	{"ParseDDL", "CREATE TABLE t (%F) PRIMARY KEY (f0)"}, {"ParseDDL", "CREATE INDEX i ON t (f0) STORING (%L2)"}, {"ParseType", "STRUCT<%F>"}, {"ParseType", "%[INT64%]"},
	{"ParseStatements", "%S"},
}

func sweepInstance(text string, n int) string {
	var l, f, tt, p, l2, s strings.Builder
	for i := 0; i <= n; i++ {
		if i > 0 {
			l.WriteString(", ")
			f.WriteString(", ")
			tt.WriteString(", ")
			l2.WriteString(", ")
			s.WriteString(";\n")
		}
		fmt.Fprintf(&l, "%d", i)
		fmt.Fprintf(&f, "f%d INT64", i)
		fmt.Fprintf(&tt, "(%d, %d)", i, i+1)
		fmt.Fprintf(&l2, "c%d", i)
		fmt.Fprintf(&s, "SELECT %d", i)
	}
	for i := 0; i < n; i++ {
		p.WriteString("+ 1 ")
	}
	r := strings.NewReplacer("%L2", l2.String(), "%L", l.String(), "%F", f.String(), "%T", tt.String(), "%P", p.String(), "%S", s.String(),
		"%(", strings.Repeat("(", n), "%)", strings.Repeat(")", n), "%[", strings.Repeat("ARRAY<", n), "%]", strings.Repeat(">", n))
	return r.Replace(text)
}

// ---- two-parameter sweep: two repeated parts in different roles, each at every size of a boundary set ----
//
// A buffer shared by two lists, a counter that one construct advances and another one reads, a look-ahead whose reach depends on
// what precedes it: such thresholds need two sizes at once. Each template is two sweep templates joined by "\x00"; the first is
// instantiated with a, the second with b, for every (a, b) in sweep2Sizes x sweep2Sizes.

var sweep2Sizes = []int{0, 1, 2, 3, 7, 8, 9, 15, 16, 17, 31, 32, 33, 63, 64, 65, 127, 128, 129, 255, 256, 257}

var sweep2Templates = []struct{ entry, text string }{
	{"ParseExpr", "f(%L) + \x00g(%L)"}, {"ParseExpr", "(%L) IN (\x00%T)"}, {"ParseExpr", "[%L][OFFSET(1 \x00%P)]"}, {"ParseExpr", "STRUCT<%F>(\x00%L)"},
	{"ParseExpr", "%(1%) + \x00%(2%)"}, {"ParseExpr", "((SELECT %L FROM t JOIN u ON TRUE) UNION ALL \x00(SELECT %L))"}, {"ParseExpr", "a %P IN \x00%((SELECT 1)%)"},
	{"ParseQuery", "SELECT %L FROM t WHERE x IN (\x00%L)"}, {"ParseQuery", "WITH a AS (SELECT %L) SELECT \x00%L FROM a"}, {"ParseQuery", "SELECT * FROM %(t JOIN u ON TRUE%) WHERE a IN (\x00%L)"},
	{"ParseQuery", "SELECT %L2 FROM t ORDER BY \x00%L2"}, {"ParseQuery", "@{a=1 %P} SELECT \x00%L"},
	{"ParseDML", "INSERT INTO t (%L2) VALUES (\x00%L)"}, {"ParseDML", "UPDATE t SET a = 1 %P WHERE b IN (\x00%L)"}, {"ParseDML", "INSERT INTO t (a, b) VALUES %T THEN RETURN \x00%L2"},
	{"ParseDDL", "CREATE TABLE t (%F) PRIMARY KEY (\x00%L2)"}, {"ParseDDL", "CREATE INDEX i ON t (%L2) STORING (\x00%L2)"}, {"ParseType", "STRUCT<%F, x \x00%[INT64%]>"},
	{"ParseStatements", "%S;\nSELECT \x00%L"},
}

// forSweep2 calls f for this shard's share of (template, a, b).
func forSweep2(ctx *harness.Ctx, f func(entry, src string, a, b int) bool) {
	idx := 0
	for _, tp := range sweep2Templates {
		parts := strings.SplitN(tp.text, "\x00", 2)
		for _, a := range sweep2Sizes {
			for _, b := range sweep2Sizes {
				idx++
				if idx%ctx.Of != ctx.Shard {
					continue
				}
				if !f(tp.entry, sweepInstance(parts[0], a)+sweepInstance(parts[1], b), a, b) {
					return
				}
			}
		}
	}
}

// sweepSizes: every size 0..sweepMax (thorough: 0..1100), then the neighbourhoods of the powers of two above that
// (2^k-1, 2^k, 2^k+1 up to 4096, thorough 16384). Nesting templates (%( and %[) stop at 1025: their cost is quadratic.
func sweepSizes(ctx *harness.Ctx, text string) []int {
	dense, top := sweepMax, 4096
	if ctx.Thorough() {
		dense, top = 1100, 16384
	}
	if strings.Contains(text, "%(") || strings.Contains(text, "%[") {
		top = 1024
	}
	var ns []int
	for n := 0; n <= dense; n++ {
		ns = append(ns, n)
	}
	for b := 512; b <= top; b *= 2 {
		for _, n := range []int{b - 1, b, b + 1} {
			if n > dense {
				ns = append(ns, n)
			}
		}
	}
	return ns
}

// forSweep calls f for this shard's share of (template, n).
func forSweep(ctx *harness.Ctx, f func(entry, src string, n int) bool) {
	idx := 0
	for _, tp := range sweepTemplates {
		for _, n := range sweepSizes(ctx, tp.text) {
			idx++
			if idx%ctx.Of != ctx.Shard {
				continue
			}
			if !f(tp.entry, sweepInstance(tp.text, n), n) {
				return
			}
		}
	}
}
