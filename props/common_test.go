package props

import (
	"fmt"
	"os"
	"path/filepath"
	"reflect"
	"runtime/debug"
	"sort"
	"strconv"
	"strings"
	"sync"
	"time"

	"verif/internal/harness"

	"github.com/cloudspannerecosystem/memefish"
	"github.com/cloudspannerecosystem/memefish/ast"
	"github.com/cloudspannerecosystem/memefish/token"
)

// repoDir is the memefish tree the binary was built against.
func repoDir() string {
	if r := os.Getenv("VERIF_REPO"); r != "" {
		return r
	}
	return "/repo"
}

// Entry is one public parser entry point behind a uniform signature.
type Entry struct {
	Name   string
	List   bool
	Kind   string // statement, query, expr, type, ddl, dml
	Single string // for list entries: the matching single-node entry
	Call   func(src string) ([]ast.Node, error)
}

func one(n ast.Node, err error) ([]ast.Node, error) { return []ast.Node{n}, err }

func isNilNode(n ast.Node) bool {
	if n == nil {
		return true
	}
	v := reflect.ValueOf(n)
	return v.Kind() == reflect.Ptr && v.IsNil()
}

var entries = []*Entry{
	{Name: "ParseStatement", Kind: "statement", Call: func(s string) ([]ast.Node, error) {
		n, err := memefish.ParseStatement("", s)
		return one(n, err)
	}},
	{Name: "ParseQuery", Kind: "query", Call: func(s string) ([]ast.Node, error) {
		n, err := memefish.ParseQuery("", s)
		if n == nil {
			return []ast.Node{nil}, err
		}
		return one(n, err)
	}},
	{Name: "ParseExpr", Kind: "expr", Call: func(s string) ([]ast.Node, error) {
		n, err := memefish.ParseExpr("", s)
		return one(n, err)
	}},
	{Name: "ParseType", Kind: "type", Call: func(s string) ([]ast.Node, error) {
		n, err := memefish.ParseType("", s)
		return one(n, err)
	}},
	{Name: "ParseDDL", Kind: "ddl", Call: func(s string) ([]ast.Node, error) {
		n, err := memefish.ParseDDL("", s)
		return one(n, err)
	}},
	{Name: "ParseDML", Kind: "dml", Call: func(s string) ([]ast.Node, error) {
		n, err := memefish.ParseDML("", s)
		return one(n, err)
	}},
	{Name: "ParseStatements", Kind: "statement", List: true, Single: "ParseStatement", Call: func(s string) ([]ast.Node, error) {
		ns, err := memefish.ParseStatements("", s)
		out := make([]ast.Node, len(ns))
		for i, n := range ns {
			out[i] = n
		}
		return out, err
	}},
	{Name: "ParseDDLs", Kind: "ddl", List: true, Single: "ParseDDL", Call: func(s string) ([]ast.Node, error) {
		ns, err := memefish.ParseDDLs("", s)
		out := make([]ast.Node, len(ns))
		for i, n := range ns {
			out[i] = n
		}
		return out, err
	}},
	{Name: "ParseDMLs", Kind: "dml", List: true, Single: "ParseDML", Call: func(s string) ([]ast.Node, error) {
		ns, err := memefish.ParseDMLs("", s)
		out := make([]ast.Node, len(ns))
		for i, n := range ns {
			out[i] = n
		}
		return out, err
	}},
}

var entryByName = func() map[string]*Entry {
	m := map[string]*Entry{}
	for _, e := range entries {
		m[e.Name] = e
	}
	return m
}()

var entryNames = func() []string {
	var out []string
	for _, e := range entries {
		out = append(out, e.Name)
	}
	return out
}()

// entriesForKind lists the entry points that should accept a sentence of kind k.
func entriesForKind(k string) []*Entry {
	switch k {
	case "query":
		return []*Entry{entryByName["ParseQuery"], entryByName["ParseStatement"], entryByName["ParseStatements"]}
	case "ddl":
		return []*Entry{entryByName["ParseDDL"], entryByName["ParseStatement"], entryByName["ParseStatements"], entryByName["ParseDDLs"]}
	case "dml":
		return []*Entry{entryByName["ParseDML"], entryByName["ParseStatement"], entryByName["ParseStatements"], entryByName["ParseDMLs"]}
	case "call":
		return []*Entry{entryByName["ParseStatement"], entryByName["ParseStatements"]}
	case "expr":
		return []*Entry{entryByName["ParseExpr"]}
	case "type":
		return []*Entry{entryByName["ParseType"]}
	}
	return nil
}

// Outcome of one guarded call.
type Outcome struct {
	Nodes    []ast.Node
	Err      error
	Panicked bool
	PanicVal any
	Stack    string
}

// guarded calls f under recover.
func guarded(f func() ([]ast.Node, error)) (o Outcome) {
	defer func() {
		if r := recover(); r != nil {
			o.Panicked = true
			o.PanicVal = r
			o.Stack = string(debug.Stack())
		}
	}()
	o.Nodes, o.Err = f()
	return
}

// curCtx is the context of the running property (set by TestProp); it arms the hang watchdog
// around every entry-point call, so a non-terminating parse ends the shard in seconds
// (inconclusive for every property except C03, which confirms it in isolation and reports it).
var curCtx *harness.Ctx

func (e *Entry) Guarded(src string) Outcome {
	if curCtx != nil {
		done := curCtx.Guard(&harness.Case{Entry: e.Name, Input: src}, 20*time.Second)
		defer done()
	}
	return guarded(func() ([]ast.Node, error) { return e.Call(src) })
}

// panicSite names the innermost memefish frame of a panic stack (function name
// only): the root cause label used in signatures.
func panicSite(stack string) string {
	lines := strings.Split(stack, "\n")
	for _, ln := range lines {
		ln = strings.TrimSpace(ln)
		if !strings.HasPrefix(ln, "github.com/cloudspannerecosystem/memefish") {
			continue
		}
		// e.g. github.com/cloudspannerecosystem/memefish.(*Lexer).consumeQuotedContent(0x..., ...)
		if i := strings.LastIndex(ln, "("); i > 0 {
			ln = ln[:i]
		}
		ln = strings.TrimPrefix(ln, "github.com/cloudspannerecosystem/memefish")
		ln = strings.TrimPrefix(ln, "/")
		ln = strings.TrimPrefix(ln, ".")
		if strings.Contains(ln, "func1") || strings.Contains(ln, "func2") {
			continue // deferred recover wrappers that re-panic
		}
		return ln
	}
	return "?"
}

func panicKind(v any) string {
	switch x := v.(type) {
	case *memefish.Error:
		return "*memefish.Error"
	case error:
		s := x.Error()
		switch {
		case strings.Contains(s, "index out of range"):
			return "runtime:index out of range"
		case strings.Contains(s, "slice bounds out of range"):
			return "runtime:slice bounds out of range"
		case strings.Contains(s, "nil pointer dereference"):
			return "runtime:nil pointer dereference"
		}
		return "error:" + trunc(s, 40)
	case string:
		return "string:" + trunc(x, 40)
	}
	return fmt.Sprintf("%T", v)
}

// q renders an input for evidence samples and messages: Go-quoted so that
// invalid UTF-8 and control bytes survive JSON.
func q(s string) string { return strconv.Quote(s) }

func trunc(s string, n int) string {
	if len(s) > n {
		return s[:n] + "..."
	}
	return s
}

// ---- corpus ----

type CorpusFile struct {
	Name  string
	Dir   string // query, ddl, dml, expr, statement
	Kind  string // query, ddl, dml, expr, statement(call)
	Src   string
	Bad   bool
	Entry string
}

var (
	corpusOnce sync.Once
	corpusAll  []CorpusFile
)

func corpus() []CorpusFile {
	corpusOnce.Do(func() {
		base := filepath.Join(repoDir(), "testdata", "input")
		for _, d := range []struct{ dir, kind, entry string }{
			{"query", "query", "ParseQuery"}, {"ddl", "ddl", "ParseDDL"}, {"dml", "dml", "ParseDML"},
			{"expr", "expr", "ParseExpr"}, {"statement", "call", "ParseStatement"},
		} {
			files, _ := os.ReadDir(filepath.Join(base, d.dir))
			for _, f := range files {
				if !strings.HasSuffix(f.Name(), ".sql") {
					continue
				}
				b, err := os.ReadFile(filepath.Join(base, d.dir, f.Name()))
				if err != nil {
					continue
				}
				corpusAll = append(corpusAll, CorpusFile{Name: d.dir + "/" + f.Name(), Dir: d.dir, Kind: d.kind, Src: string(b),
					Bad: strings.HasPrefix(f.Name(), "!bad_"), Entry: d.entry})
			}
		}
		sort.Slice(corpusAll, func(i, j int) bool { return corpusAll[i].Name < corpusAll[j].Name })
	})
	return corpusAll
}

func corpusGood() []CorpusFile {
	var out []CorpusFile
	for _, c := range corpus() {
		if !c.Bad {
			out = append(out, c)
		}
	}
	return out
}

// ---- memefish lexing helper ----

// mfLex tokenises with memefish.Lexer (NextToken). The last token is <eof> on success.
func mfLex(src string) (toks []token.Token, err error) {
	l := &memefish.Lexer{File: &token.File{Buffer: src}}
	for i := 0; i <= len(src)+1; i++ {
		if e := l.NextToken(); e != nil {
			return toks, e
		}
		toks = append(toks, l.Token)
		if l.Token.Kind == token.TokenEOF {
			return toks, nil
		}
	}
	return toks, fmt.Errorf("lexer made no progress")
}

// mfLexRecovery tokenises with the recovery-mode lexer step (verif hook); it never fails.
func mfLexRecovery(src string) (toks []token.Token) {
	l := &memefish.Lexer{File: &token.File{Buffer: src}}
	for i := 0; i <= len(src)+1; i++ {
		l.VerifNextTokenNoPanic()
		toks = append(toks, l.Token)
		if l.Token.Kind == token.TokenEOF {
			return toks
		}
	}
	return toks
}

func sqlOf(nodes []ast.Node) (s string, panicked any) {
	defer func() {
		if r := recover(); r != nil {
			panicked = r
		}
	}()
	var parts []string
	for _, n := range nodes {
		if isNilNode(n) {
			continue
		}
		parts = append(parts, n.SQL())
	}
	return strings.Join(parts, ";\n"), nil
}

// lastStep returns the last field step of a reflection path (".A.B[3]" -> "B[3]").
func lastStep(p string) string {
	if i := strings.LastIndex(p, "."); i >= 0 {
		return p[i+1:]
	}
	return p
}
