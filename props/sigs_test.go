package props

import (
	"bufio"
	"fmt"
	"os"
	"strconv"
	"strings"
	"testing"

	"verif/internal/harness"
)

// TestSigs is a development aid: VERIF_PROP=<id> VERIF_SIGS=<file> go test -tags verif -run TestSigs ./props
// prints, for every line "entry<TAB>go-quoted-input" of the file, the signatures the property's oracle reports.
// (Used to write known_findings.txt entries with minimal inputs.)
func TestSigs(t *testing.T) {
	path := os.Getenv("VERIF_SIGS")
	if path == "" {
		t.Skip("VERIF_SIGS not set")
	}
	p := harness.Lookup(os.Getenv("VERIF_PROP"))
	if p == nil || p.Oracle == nil {
		t.Fatalf("unknown property")
	}
	ctx := harness.NewCtx(p)
	curCtx = ctx
	f, err := os.Open(path)
	if err != nil {
		t.Fatal(err)
	}
	defer f.Close()
	sc := bufio.NewScanner(f)
	for sc.Scan() {
		parts := strings.SplitN(sc.Text(), "\t", 2)
		if len(parts) != 2 {
			continue
		}
		in, err := strconv.Unquote(parts[1])
		if err != nil {
			in = parts[1]
		}
		cs := &harness.Case{Property: p.ID, Entry: parts[0], Input: in}
		ds := p.Oracle(ctx, cs)
		if len(ds) == 0 {
			fmt.Printf("SIGS %s %s => (none)\n", parts[0], strconv.Quote(in))
		}
		for _, d := range ds {
			fmt.Printf("SIGS %s %s => %s\n", parts[0], strconv.Quote(in), d.Sig)
		}
	}
}
