package props

import (
	"fmt"
	"sort"
	"strings"

	"github.com/cloudspannerecosystem/memefish/ast"
	"pgregory.net/rapid"

	"verif/internal/astx"
	"verif/internal/harness"
)

// C04 — SQL(), Pos(), End() and Walk are total on every AST the parser returns.

func init() {
	harness.Register(&harness.Property{
		ID: "C04", Run: runC04, Oracle: oracleC04, Minimize: true,
		Rule: "cases: trees returned by every parser entry point for generated sentences (every operand kind under every operator), corpus files, token/byte mutants, hostile fragments, " +
			"unbalanced bracket/keyword sequences, byte soups and nesting probes. Every node is enumerated by reflection (not ast.Walk), bottom-up, and SQL()/Pos()/End() are called under recover; " +
			"then Walk/Inspect/Preorder (full and early exit) run on each root. Non-trivial = tree with a Bad* node or with an operator whose operand is neither literal, identifier nor parenthesised; " +
			"distinct by (entry point, position-free AST dump hash).",
		Assumptions: []string{"a panic inside the Parse* call itself is C03's business and is skipped here"},
	})
}

func callGuard(f func()) (p any) {
	defer func() {
		if r := recover(); r != nil {
			p = r
		}
	}()
	f()
	return nil
}

func childTypes(n ast.Node) string {
	set := map[string]bool{}
	for _, c := range astx.Children(n) {
		set[astx.TypeName(c.Node)] = true
	}
	var out []string
	for k := range set {
		out = append(out, k)
	}
	sort.Strings(out)
	return strings.Join(out, ",")
}

// c04Tree checks one returned tree; it reports the innermost panicking node per method.
func c04Tree(root ast.Node, add func(sig, msg string)) {
	nodes := astx.All(root)
	for _, m := range []string{"SQL", "Pos", "End"} {
		bad := map[ast.Node]bool{} // nodes whose call panicked
		for i := len(nodes) - 1; i >= 0; i-- {
			n := nodes[i].Node
			var p any
			switch m {
			case "SQL":
				p = callGuard(func() { _ = n.SQL() })
			case "Pos":
				p = callGuard(func() { _ = n.Pos() })
			case "End":
				p = callGuard(func() { _ = n.End() })
			}
			if p == nil {
				continue
			}
			bad[n] = true
			inherited := false
			for _, c := range astx.Children(n) {
				if bad[c.Node] {
					inherited = true
				}
			}
			if inherited {
				continue
			}
			add(fmt.Sprintf("C04 panic %s %s %s children=%s", m, astx.TypeName(n), panicKind(p), childTypes(n)),
				fmt.Sprintf("%s() of %s at %s panicked: %v", m, astx.TypeName(n), nodes[i].Path, p))
		}
	}
	if p := callGuard(func() { ast.Walk(root, countVisitor{}) }); p != nil {
		add("C04 panic Walk "+panicKind(p), fmt.Sprintf("ast.Walk panicked: %v", p))
	}
	if p := callGuard(func() { ast.Inspect(root, func(ast.Node) bool { return true }) }); p != nil {
		add("C04 panic Inspect "+panicKind(p), fmt.Sprintf("ast.Inspect panicked: %v", p))
	}
	if p := callGuard(func() {
		k := 0
		for range ast.Preorder(root) {
			k++
			if k == 3 {
				break
			}
		}
		for range ast.Preorder(root) {
		}
	}); p != nil {
		add("C04 panic Preorder "+panicKind(p), fmt.Sprintf("ast.Preorder panicked: %v", p))
	}
}

type countVisitor struct{}

func (v countVisitor) Visit(ast.Node) ast.Visitor       { return v }
func (v countVisitor) VisitMany([]ast.Node) ast.Visitor { return v }
func (v countVisitor) Field(string) ast.Visitor         { return v }
func (v countVisitor) Index(int) ast.Visitor            { return v }

func oracleC04(ctx *harness.Ctx, cs *harness.Case) (ds []harness.Discrepancy) {
	add := func(sig, msg string) {
		ds = append(ds, harness.Discrepancy{Sig: sig, Msg: msg + " entry=" + cs.Entry + " input=" + q(trunc(cs.Input, 160))})
	}
	e := entryByName[cs.Entry]
	if e == nil {
		return
	}
	o := e.Guarded(cs.Input)
	if o.Panicked {
		return
	}
	for _, n := range o.Nodes {
		if isNilNode(n) {
			continue
		}
		c04Tree(n, add)
	}
	if len(o.Nodes) > 1 {
		if p := callGuard(func() {
			ast.WalkMany(o.Nodes, countVisitor{})
			ast.InspectMany(o.Nodes, func(ast.Node) bool { return true })
			for range ast.PreorderMany(o.Nodes) {
			}
		}); p != nil {
			add("C04 panic WalkMany "+panicKind(p), fmt.Sprintf("WalkMany/InspectMany/PreorderMany panicked: %v", p))
		}
	}
	return
}

func isSimpleOperand(n ast.Node) bool {
	switch n.(type) {
	case *ast.IntLiteral, *ast.FloatLiteral, *ast.StringLiteral, *ast.BytesLiteral, *ast.BoolLiteral, *ast.NullLiteral, *ast.Ident, *ast.Path, *ast.Param, *ast.ParenExpr,
		*ast.BinaryExpr, *ast.UnaryExpr:
		return true
	}
	return false
}

// treeStats records node types and the non-trivial rule for C04-like checks.
func c04Stats(ctx *harness.Ctx, entry string, nodes []ast.Node, types map[string]int64) {
	nt := false
	var dump strings.Builder
	for _, root := range nodes {
		if isNilNode(root) {
			continue
		}
		for _, a := range astx.All(root) {
			types[astx.TypeName(a.Node)]++
			if astx.IsBad(a.Node) {
				nt = true
			}
			switch x := a.Node.(type) {
			case *ast.BinaryExpr:
				if !isSimpleOperand(x.Left) || !isSimpleOperand(x.Right) {
					nt = true
				}
			case *ast.UnaryExpr:
				if !isSimpleOperand(x.Expr) {
					nt = true
				}
			case *ast.SelectorExpr, *ast.IndexExpr, *ast.InExpr, *ast.IsNullExpr, *ast.IsBoolExpr, *ast.BetweenExpr:
				for _, c := range astx.Children(x) {
					if _, ok := c.Node.(ast.Expr); ok && !isSimpleOperand(c.Node) {
						nt = true
					}
				}
			}
		}
		dump.WriteString(astx.Dump(root, false))
	}
	if nt {
		ctx.Class("tree:non-trivial")
		ctx.NonTrivial(harness.Hash(entry, dump.String()))
	}
}

func runC04(ctx *harness.Ctx) {
	types := map[string]int64{}
	fn := func(t harness.T, leg string, e *Entry, src string) {
		cs := &harness.Case{Leg: leg, Entry: e.Name, Input: src}
		ctx.Eval(1)
		o := e.Guarded(src)
		if !o.Panicked {
			if o.Err != nil {
				ctx.Class("tree:with-errors")
			} else {
				ctx.Class("tree:clean")
			}
			c04Stats(ctx, e.Name, o.Nodes, types)
		}
		ctx.Check(t, cs, oracleC04(ctx, cs))
	}
	runStreams(ctx, streamOpts{
		shortLen: ctx.Pick(3, 4), soup: ctx.Pick(1500, 30000), mutant: ctx.Pick(4000, 60000), nesting: ctx.Pick(30, 200),
		valid: ctx.Pick(3000, 40000), unbalanced: ctx.Pick(3000, 40000), entriesPerSrc: 3, long: ctx.Pick(400, 6000),
	}, fn)
	if genExprSentence != nil {
		// operand kind x operator matrix: generated expressions under every operator form
		ctx.Rapid("operand-matrix", ctx.Pick(4000, 60000), func(t *rapid.T) {
			src := genExprSentence(t)
			fn(t, "operand-matrix", entryByName["ParseExpr"], src)
		})
	}
	ctx.Rapid("generated-relaxed", ctx.Pick(4000, 60000), func(t *rapid.T) {
		c := drawGenRelaxed(t, "", drawDepth(t))
		es := entriesForKind(c.S.Kind)
		fn(t, "generated-relaxed", es[rapid.IntRange(0, len(es)-1).Draw(t, "entry")], c.Text)
	})
	var names []any
	for k := range types {
		names = append(names, k)
	}
	ctx.SetExtra("node_types_seen", names)
}

// genExprSentence is set by the generator glue: an expression sentence in which
// a drawn primary sits under a drawn operator.
var genExprSentence func(t *rapid.T) string
