package props

import (
	"strings"
	"verif/internal/mutate"

	"pgregory.net/rapid"

	"verif/internal/gen"
	"verif/internal/harness"
)

// GenCase is a generated sentence together with one rendering of it.
type GenCase struct {
	S      gen.Sentence
	Pieces []gen.Piece
	Tail   string
	Text   string
}

var genAvoid map[string]bool

// drawGenRelaxed is drawGen with G widened beyond the documented grammar (only for properties over accepted inputs).
func drawGenRelaxed(t *rapid.T, kind string, depth int) GenCase {
	g := gen.New(t, depth, genAvoid)
	g.Relaxed = true
	s := gen.Draw(g, kind)
	ps, tail := gen.Render(t, s.W, gen.RenderOpts{})
	return GenCase{S: s, Pieces: ps, Tail: tail, Text: gen.Text(ps, tail)}
}

// drawGenQuotedPKW renders a sentence with ONE pseudo keyword written back-quoted. The documentation treats such a
// spelling as a plain identifier, so the sentence is usually rejected; where memefish accepts it anyway (names matched
// on the decoded identifier: type names, TABLESAMPLE methods, MAX, subscript position keywords) every property over
// accepted inputs applies to it.
func drawGenQuotedPKW(t *rapid.T, kind string, depth int) (GenCase, bool) {
	c := drawGen(t, kind, depth)
	var idx []int
	for i, p := range c.Pieces {
		if p.Lex.K == gen.PKW {
			idx = append(idx, i)
		}
	}
	if len(idx) == 0 {
		return c, false
	}
	i := idx[rapid.IntRange(0, len(idx)-1).Draw(t, "quote-pkw")]
	c.Pieces[i].Text = "`" + c.Pieces[i].Text + "`"
	c.Text = gen.Text(c.Pieces, c.Tail)
	return c, true
}

// drawGenLong is drawGen with one very long list (120..330 elements) allowed per sentence.
func drawGenLong(t *rapid.T, kind string, depth int) GenCase {
	g := gen.New(t, depth, genAvoid)
	g.Long = true
	s := gen.Draw(g, kind)
	ps, tail := gen.Render(t, s.W, gen.RenderOpts{NoComments: true})
	return GenCase{S: s, Pieces: ps, Tail: tail, Text: gen.Text(ps, tail)}
}

// drawGen draws a sentence of the given kind ("" = any) and renders it.
func drawGen(t *rapid.T, kind string, depth int) GenCase {
	g := gen.New(t, depth, genAvoid)
	s := gen.Draw(g, kind)
	ps, tail := gen.Render(t, s.W, gen.RenderOpts{})
	return GenCase{S: s, Pieces: ps, Tail: tail, Text: gen.Text(ps, tail)}
}

func drawDepth(t *rapid.T) int {
	return rapid.SampledFrom([]int{1, 2, 2, 3, 3, 4}).Draw(t, "depth")
}

func init() {
	genSentence = func(t *rapid.T) Sentence {
		c := drawGen(t, "", drawDepth(t))
		return Sentence{Src: c.Text, Kind: c.S.Kind, Origin: "G"}
	}
	genExprSentence = func(t *rapid.T) string {
		g := gen.New(t, 2, genAvoid)
		f := g.ExprOperandMatrix()
		ps, tail := gen.Render(t, f.W, gen.RenderOpts{})
		return gen.Text(ps, tail)
	}
}

// useAvoid installs the avoid= tags of the property's known findings into G.
func useAvoid(ctx *harness.Ctx) {
	genAvoid = ctx.AvoidTags()
}

// tagHistogram accumulates feature tags into class counters (generator health).
func tagHistogram(ctx *harness.Ctx, tags []string) {
	for _, tg := range tags {
		ctx.Class("g:" + tg)
	}
}

func lexClassList(ls []gen.Lex) string {
	var parts []string
	for _, l := range ls {
		parts = append(parts, l.Class())
	}
	return strings.Join(parts, " ")
}

// drawClausePermutation draws a DDL-heavy sentence (corpus file or G) and permutes / repeats / drops its comma-separated or
// keyword-introduced clauses (mutate.Segments, once or twice): trailing clauses in another order, a clause twice, a list
// element moved - inputs a token-level edit does not produce and that the parser may reject, accept, or loop on.
func drawClausePermutation(t *rapid.T) (src, kind string) {
	switch rapid.IntRange(0, 9).Draw(t, "perm.source") {
	case 0, 1, 2, 3:
		var pool []CorpusFile
		for _, c := range corpusGood() {
			if c.Kind == "ddl" || c.Kind == "dml" {
				pool = append(pool, c)
			}
		}
		c := pool[rapid.IntRange(0, len(pool)-1).Draw(t, "perm.corpus")]
		src, kind = c.Src, c.Kind
	case 4, 5, 6, 7:
		c := drawGenRelaxed(t, "ddl", 2)
		src, kind = c.Text, c.S.Kind
	default:
		c := drawGen(t, rapid.SampledFrom([]string{"dml", "query", "call"}).Draw(t, "perm.kind"), 2)
		src, kind = c.Text, c.S.Kind
	}
	src = mutate.Segments(t, src)
	if rapid.IntRange(0, 2).Draw(t, "perm.twice") == 0 {
		src = mutate.Segments(t, src)
	}
	return src, kind
}
