package props

import (
	"strings"

	"pgregory.net/rapid"

	"verif/internal/gen"
	"verif/internal/harness"
)

// GenCase is a generated sentence together with one rendering of it.
type GenCase struct {
	S      gen.Sentence
	Pieces []gen.Piece
	Tail   string
	Text   string
}

var genAvoid map[string]bool

// drawGenRelaxed is drawGen with G widened beyond the documented grammar (only for properties over accepted inputs).
func drawGenRelaxed(t *rapid.T, kind string, depth int) GenCase {
	g := gen.New(t, depth, genAvoid)
	g.Relaxed = true
	s := gen.Draw(g, kind)
	ps, tail := gen.Render(t, s.W, gen.RenderOpts{})
	return GenCase{S: s, Pieces: ps, Tail: tail, Text: gen.Text(ps, tail)}
}

// drawGenQuotedPKW renders a sentence with ONE pseudo keyword written back-quoted. The documentation treats such a
// spelling as a plain identifier, so the sentence is usually rejected; where memefish accepts it anyway (names matched
// on the decoded identifier: type names, TABLESAMPLE methods, MAX, subscript position keywords) every property over
// accepted inputs applies to it.
func drawGenQuotedPKW(t *rapid.T, kind string, depth int) (GenCase, bool) {
	c := drawGen(t, kind, depth)
	var idx []int
	for i, p := range c.Pieces {
		if p.Lex.K == gen.PKW {
			idx = append(idx, i)
		}
	}
	if len(idx) == 0 {
		return c, false
	}
	i := idx[rapid.IntRange(0, len(idx)-1).Draw(t, "quote-pkw")]
	c.Pieces[i].Text = "`" + c.Pieces[i].Text + "`"
	c.Text = gen.Text(c.Pieces, c.Tail)
	return c, true
}

// drawGenLong is drawGen with one very long list (120..330 elements) allowed per sentence.
func drawGenLong(t *rapid.T, kind string, depth int) GenCase {
	g := gen.New(t, depth, genAvoid)
	g.Long = true
	s := gen.Draw(g, kind)
	ps, tail := gen.Render(t, s.W, gen.RenderOpts{NoComments: true})
	return GenCase{S: s, Pieces: ps, Tail: tail, Text: gen.Text(ps, tail)}
}

// drawGen draws a sentence of the given kind ("" = any) and renders it.
func drawGen(t *rapid.T, kind string, depth int) GenCase {
	g := gen.New(t, depth, genAvoid)
	s := gen.Draw(g, kind)
	ps, tail := gen.Render(t, s.W, gen.RenderOpts{})
	return GenCase{S: s, Pieces: ps, Tail: tail, Text: gen.Text(ps, tail)}
}

func drawDepth(t *rapid.T) int {
	return rapid.SampledFrom([]int{1, 2, 2, 3, 3, 4}).Draw(t, "depth")
}

func init() {
	genSentence = func(t *rapid.T) Sentence {
		c := drawGen(t, "", drawDepth(t))
		return Sentence{Src: c.Text, Kind: c.S.Kind, Origin: "G"}
	}
	genExprSentence = func(t *rapid.T) string {
		g := gen.New(t, 2, genAvoid)
		f := g.ExprOperandMatrix()
		ps, tail := gen.Render(t, f.W, gen.RenderOpts{})
		return gen.Text(ps, tail)
	}
}

// useAvoid installs the avoid= tags of the property's known findings into G.
func useAvoid(ctx *harness.Ctx) {
	genAvoid = ctx.AvoidTags()
}

// tagHistogram accumulates feature tags into class counters (generator health).
func tagHistogram(ctx *harness.Ctx, tags []string) {
	for _, tg := range tags {
		ctx.Class("g:" + tg)
	}
}

func lexClassList(ls []gen.Lex) string {
	var parts []string
	for _, l := range ls {
		parts = append(parts, l.Class())
	}
	return strings.Join(parts, " ")
}
