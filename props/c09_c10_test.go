package props

import (
	"fmt"
	"reflect"
	"strings"

	"github.com/cloudspannerecosystem/memefish"
	"github.com/cloudspannerecosystem/memefish/ast"
	"github.com/cloudspannerecosystem/memefish/token"
	"pgregory.net/rapid"

	"verif/internal/astx"
	"verif/internal/harness"
	"verif/internal/reflex"
)

// C09 — error contract: nil error iff clean, fully consumed parse; Bad nodes imply error.
// C10 — Bad nodes capture exactly the skipped source tokens.

func init() {
	harness.Register(&harness.Property{
		ID: "C09", Run: runC09, Oracle: oracleC09, Minimize: true,
		Rule: "cases: valid sentences (corpus, generator), their token/byte mutants, hostile fragments, unbalanced sequences, byte soups, short exhaustive strings; every parser entry point. " +
			"Also, for every accepted input x, x followed by a token that can never continue a construct ( ')' , ']' , '}' ) must be rejected. " +
			"Non-trivial = the call returned an error or a Bad* node; distinct by (entry point, input).",
		Assumptions: []string{
			"'fully consumed' is decided from the position fields stored in the tree (the largest stored position must reach the last significant token), not from End(), so C05/C06 defects are not re-reported here",
			"one trailing ',' (documented trailing comma) and, for list entry points, trailing ';' are not significant",
		},
	})
	harness.Register(&harness.Property{
		ID: "C10", Run: runC10, Oracle: oracleC10, Minimize: true,
		Rule: "cases: inputs that make the parser build Bad* nodes (mutants, unbalanced ( [ CASE WHEN < >> sequences, soups, hostile fragments), every parser entry point, every BadNode of the returned trees. " +
			"Oracle: the recovery-mode token stream of the whole input (verif hook) restricted to [NodePos,NodeEnd] must equal BadNode.Tokens (kind, raw, pos, end; a half of a split '>>' matches its half), " +
			"NodePos/NodeEnd are the first start / last end, and SQL() re-lexes to the same (kind, raw) sequence. Non-trivial = Bad node with >=1 token; distinct by (entry, input, node range).",
		Assumptions: []string{"the in-context recovery-mode lexer is the reference for token boundaries; its agreement with NextToken on clean text and its tiling are checked by C13"},
	})
}

var posT = reflect.TypeOf(token.Pos(0))

// posFieldRange returns the smallest and largest valid token.Pos stored anywhere in the tree.
func posFieldRange(n ast.Node) (lo, hi int, any bool) {
	lo, hi = 1<<60, -1
	var rec func(v reflect.Value, depth int)
	rec = func(v reflect.Value, depth int) {
		if !v.IsValid() || depth > 10000 {
			return
		}
		switch v.Kind() {
		case reflect.Ptr, reflect.Interface:
			if !v.IsNil() {
				rec(v.Elem(), depth+1)
			}
		case reflect.Struct:
			if v.Type() == reflect.TypeOf(token.Token{}) {
				return // tokens inside Bad nodes: handled through NodePos/NodeEnd
			}
			for i := 0; i < v.NumField(); i++ {
				if v.Type().Field(i).IsExported() {
					rec(v.Field(i), depth+1)
				}
			}
		case reflect.Slice:
			for i := 0; i < v.Len(); i++ {
				rec(v.Index(i), depth+1)
			}
		case reflect.Int:
			if v.Type() == posT && v.Int() >= 0 {
				any = true
				if int(v.Int()) < lo {
					lo = int(v.Int())
				}
				if int(v.Int()) > hi {
					hi = int(v.Int())
				}
			}
		}
	}
	rec(reflect.ValueOf(n), 0)
	return
}

func oracleC09(ctx *harness.Ctx, cs *harness.Case) (ds []harness.Discrepancy) {
	add := func(sig, msg string) {
		ds = append(ds, harness.Discrepancy{Sig: sig, Msg: msg + " entry=" + cs.Entry + " input=" + q(trunc(cs.Input, 160))})
	}
	e := entryByName[cs.Entry]
	if e == nil {
		return
	}
	src := cs.Input
	if cs.Aux["suffix"] != "" {
		// constructed "input remains" case: Input is accepted, Input+suffix must not be
		o := e.Guarded(src)
		if o.Panicked || o.Err != nil {
			return
		}
		o2 := e.Guarded(src + cs.Aux["suffix"])
		if !o2.Panicked && o2.Err == nil {
			add(fmt.Sprintf("C09 trailing-token-accepted %s %s", e.Name, strings.TrimSpace(cs.Aux["suffix"])),
				fmt.Sprintf("accepted input followed by %q is still accepted with a nil error", cs.Aux["suffix"]))
		}
		return
	}
	o := e.Guarded(src)
	if o.Panicked {
		// a run-time panic is C03's business; a *diagnostic* (the *Error / MultiError the contract says is returned) that leaves
		// the call as a panic is the error contract itself
		switch o.PanicVal.(type) {
		case *memefish.Error, memefish.MultiError:
			add("C09 diagnostic-escaped-as-panic "+e.Name, fmt.Sprintf("%s panicked with the syntax error it should have returned: %v", e.Name, o.PanicVal))
		}
		return
	}
	nBad := 0
	badKinds := map[string]bool{}
	for _, n := range o.Nodes {
		if isNilNode(n) {
			continue
		}
		for _, a := range astx.All(n) {
			if _, ok := a.Node.(*ast.BadNode); ok {
				nBad++
			} else if astx.IsBad(a.Node) {
				badKinds[astx.TypeName(a.Node)] = true
			}
		}
	}
	if o.Err == nil {
		if nBad > 0 || len(badKinds) > 0 {
			add("C09 nil-error-with-bad-node "+strings.Join(keys(badKinds), ","), fmt.Sprintf("nil error but the tree contains %d Bad nodes", nBad))
		}
		// fully consumed?
		ref, rerr := reflex.Lex(src)
		if rerr == nil {
			var sig []reflex.Token
			for _, t := range ref {
				if t.Kind != reflex.EOF {
					sig = append(sig, t)
				}
			}
			// strip trailing ';' (lists) and one trailing ','
			if e.List {
				for len(sig) > 0 && sig[len(sig)-1].Raw == ";" && sig[len(sig)-1].Kind == reflex.Punct {
					sig = sig[:len(sig)-1]
				}
			}
			if len(sig) > 0 && sig[len(sig)-1].Raw == "," && sig[len(sig)-1].Kind == reflex.Punct {
				sig = sig[:len(sig)-1]
			}
			if len(sig) > 0 {
				hi := -1
				rootType := ""
				for _, n := range o.Nodes {
					if isNilNode(n) {
						continue
					}
					_, h, ok := posFieldRange(n)
					if ok && h > hi {
						hi = h
					}
					rootType = astx.TypeName(n)
				}
				last := sig[len(sig)-1]
				if hi < last.Pos {
					add(fmt.Sprintf("C09 nil-error-input-remains %s root=%s last=%s", e.Name, rootType, tokClass(last)),
						fmt.Sprintf("nil error, but the largest position stored in the tree is %d and the last significant token %q starts at %d", hi, last.Raw, last.Pos))
				}
			}
			if len(sig) == 0 && !e.List {
				add("C09 nil-error-on-empty-input "+e.Name, "nil error although the input has no token")
			}
		} else {
			add("C09 nil-error-on-lexically-invalid-input "+e.Name, fmt.Sprintf("nil error although the reference lexer rejects the input: %v", rerr))
		}
		return
	}
	me, ok := o.Err.(memefish.MultiError)
	if !ok {
		return // C03
	}
	if len(me) < nBad {
		add("C09 fewer-errors-than-bad-nodes", fmt.Sprintf("%d errors for %d BadNode placeholders", len(me), nBad))
	}
	for _, x := range me {
		if x == nil || x.Position == nil {
			continue // C03
		}
		if strings.TrimSpace(x.Message) == "" {
			add("C09 error-empty-message", "error with an empty message")
		}
		if x.Position.Pos < 0 || x.Position.End < x.Position.Pos || int(x.Position.End) > len(src) {
			add("C09 error-range", fmt.Sprintf("error %q has range [%d,%d) with len %d", trunc(x.Message, 60), x.Position.Pos, x.Position.End, len(src)))
		}
	}
	return
}

func keys(m map[string]bool) []string {
	var out []string
	for k := range m {
		out = append(out, k)
	}
	sortStrings(out)
	return out
}

func sortStrings(s []string) {
	for i := 1; i < len(s); i++ {
		for j := i; j > 0 && s[j] < s[j-1]; j-- {
			s[j], s[j-1] = s[j-1], s[j]
		}
	}
}

func tokClass(t reflex.Token) string {
	switch t.Kind {
	case reflex.Keyword:
		return "kw:" + t.Value
	case reflex.Punct:
		return "'" + t.Raw + "'"
	}
	return t.Kind.String()
}

func runC09(ctx *harness.Ctx) {
	fn := func(t harness.T, leg string, e *Entry, src string) {
		cs := &harness.Case{Leg: leg, Entry: e.Name, Input: src}
		ctx.Eval(1)
		o := e.Guarded(src)
		bad := 0
		if !o.Panicked {
			for _, n := range o.Nodes {
				if !isNilNode(n) {
					bad += len(astx.BadNodes(n))
				}
			}
		}
		switch {
		case o.Panicked:
			ctx.Class("panicked")
		case o.Err == nil:
			ctx.Class("nil-error")
		case bad == 0:
			ctx.Class("error-without-bad-node")
		case bad == 1:
			ctx.Class("error-with-1-bad-node")
		default:
			ctx.Class("error-with->=2-bad-nodes")
		}
		if o.Err != nil || bad > 0 {
			ctx.NonTrivial(harness.Hash(e.Name, src))
		}
		ctx.Check(t, cs, oracleC09(ctx, cs))
		if !o.Panicked && o.Err == nil {
			for _, suf := range []string{"\n)", "\n]", "\n}"} {
				c2 := &harness.Case{Leg: leg, Entry: e.Name, Input: src, Aux: map[string]string{"suffix": suf}}
				ctx.Eval(1)
				ctx.Class("input-remains-constructed")
				ctx.Check(t, c2, oracleC09(ctx, c2))
			}
		}
	}
	runStreams(ctx, streamOpts{
		shortLen: ctx.Pick(3, 4), soup: ctx.Pick(2000, 40000), mutant: ctx.Pick(5000, 80000), nesting: ctx.Pick(20, 100),
		valid: ctx.Pick(3000, 40000), unbalanced: ctx.Pick(3000, 40000), entriesPerSrc: 3, long: ctx.Pick(400, 6000),
	}, fn)
}

// ---------------------------------------------------------------------------

type tk struct {
	Kind     token.TokenKind
	Raw      string
	Pos, End int
}

func oracleC10(ctx *harness.Ctx, cs *harness.Case) (ds []harness.Discrepancy) {
	add := func(sig, msg string) {
		ds = append(ds, harness.Discrepancy{Sig: sig, Msg: msg + " entry=" + cs.Entry + " input=" + q(trunc(cs.Input, 160))})
	}
	e := entryByName[cs.Entry]
	if e == nil {
		return
	}
	src := cs.Input
	o := e.Guarded(src)
	if o.Panicked {
		return
	}
	var T []token.Token
	if p := callGuard(func() { T = mfLexRecovery(src) }); p != nil {
		return // C03 / C13
	}
	for _, root := range o.Nodes {
		if isNilNode(root) {
			continue
		}
		for _, a := range astx.All(root) {
			b, ok := a.Node.(*ast.BadNode)
			if !ok {
				continue
			}
			owner := "BadNode"
			if a.Parent != nil {
				owner = astx.TypeName(a.Parent)
			}
			c10Bad(src, T, b, owner, add)
		}
	}
	return
}

func c10Bad(src string, T []token.Token, b *ast.BadNode, owner string, add func(sig, msg string)) {
	np, ne := int(b.NodePos), int(b.NodeEnd)
	if np < 0 || ne < np || ne > len(src) {
		add("C10 range "+owner, fmt.Sprintf("Bad node range [%d,%d) with len %d", np, ne, len(src)))
		return
	}
	if len(b.Tokens) == 0 {
		if np != ne {
			add("C10 empty-tokens-nonempty-range "+owner, fmt.Sprintf("no tokens but range [%d,%d)", np, ne))
		}
		return
	}
	first, last := b.Tokens[0], b.Tokens[len(b.Tokens)-1]
	if int(first.Pos) != np {
		add("C10 NodePos!=first-token "+owner, fmt.Sprintf("NodePos %d, first token %q starts at %d", np, first.Raw, first.Pos))
	}
	if int(last.End) != ne {
		add("C10 NodeEnd!=last-token "+owner, fmt.Sprintf("NodeEnd %d, last token %q ends at %d", ne, last.Raw, last.End))
	}
	// expected: tokens of T inside [np, ne]
	var want []tk
	for _, t := range T {
		if t.Kind == token.TokenEOF {
			break
		}
		p, e := int(t.Pos), int(t.End)
		switch {
		case p >= np && e <= ne:
			want = append(want, tk{t.Kind, t.Raw, p, e})
		case t.Kind == ">>" && p+1 == np && e <= ne:
			want = append(want, tk{">", ">", p + 1, e}) // second half of a split '>>'
		case t.Kind == ">>" && p >= np && e-1 == ne:
			want = append(want, tk{">", ">", p, e - 1}) // first half
		}
	}
	var got []tk
	for _, t := range b.Tokens {
		if t == nil {
			add("C10 nil-token "+owner, "nil token in BadNode.Tokens")
			return
		}
		got = append(got, tk{t.Kind, t.Raw, int(t.Pos), int(t.End)})
	}
	if len(got) != len(want) {
		add(fmt.Sprintf("C10 token-count %s %+d", owner, sign(len(got)-len(want))),
			fmt.Sprintf("Bad node [%d,%d) records %d tokens %s, the input has %d tokens there %s", np, ne, len(got), tkList(got), len(want), tkList(want)))
		return
	}
	for i := range got {
		g, w := got[i], want[i]
		if g == w {
			continue
		}
		// a half of '>>' recorded with its full raw text
		if w.Kind == ">>" && g.Kind == ">" && (g.Pos == w.Pos+1 || g.End == w.End-1 || (g.Pos == w.Pos && g.End == w.End)) {
			continue
		}
		add(fmt.Sprintf("C10 token-mismatch %s want=%s got=%s", owner, kindClass(w.Kind), kindClass(g.Kind)),
			fmt.Sprintf("token %d of Bad node [%d,%d): recorded %v, input has %v", i, np, ne, g, w))
		return
	}
	// SQL() re-lexes to the same (kind, raw) sequence
	var sql string
	if p := callGuard(func() { sql = b.SQL() }); p != nil {
		return // C04
	}
	// dot-identifier context: lex with a neutral prefix that reproduces the mode
	prefix, drop := "", 0
	idx := -1
	for i, t := range T {
		if int(t.Pos) == np {
			idx = i
			break
		}
	}
	if idx > 0 {
		prev := T[idx-1]
		if prev.Kind == "." && idx > 1 && dotEnabling(T[idx-2].Kind) {
			prefix, drop = "x.", 2
		} else if T[idx].Kind == "." && dotEnabling(prev.Kind) {
			prefix, drop = "x", 1
		}
	}
	var R []token.Token
	if p := callGuard(func() { R = mfLexRecovery(prefix + sql) }); p != nil {
		return
	}
	var rl []tk
	for i, t := range R {
		if t.Kind == token.TokenEOF {
			break
		}
		if i < drop {
			continue
		}
		rl = append(rl, tk{Kind: t.Kind, Raw: t.Raw})
	}
	// zero-width <bad> tokens (an unclosed comment at the end of input) have no text to re-lex
	var gotText []tk
	for _, g := range got {
		if g.Pos != g.End {
			gotText = append(gotText, g)
		}
	}
	got = gotText
	same := len(rl) == len(got)
	for i := 0; same && i < len(got); i++ {
		// a <bad> token's classification may depend on the text right after the node (a number glued to a
		// following identifier): only its text has to survive
		if rl[i].Raw != got[i].Raw || (rl[i].Kind != got[i].Kind && got[i].Kind != token.TokenBad) {
			// half '>' token whose Raw is '>>' cannot survive; compare by kind only there
			same = false
		}
	}
	if !same {
		why := "other"
		for i := 1; i < len(b.Tokens); i++ {
			if len(b.Tokens[i].Space) == 0 && len(b.Tokens[i].Comments) > 0 {
				why = "comment-separated tokens glued"
			}
		}
		add("C10 sql-relex "+why, fmt.Sprintf("SQL() of the Bad node = %q re-lexes to %s, recorded tokens are %s", trunc(sql, 80), tkList(rl), tkList(got)))
	}
}

func dotEnabling(k token.TokenKind) bool {
	return k == token.TokenIdent || k == token.TokenParam || k == ")" || k == "]"
}

func sign(n int) int {
	if n < 0 {
		return -1
	}
	if n > 0 {
		return 1
	}
	return 0
}

func kindClass(k token.TokenKind) string {
	if _, ok := token.KeywordsMap[k]; ok {
		return "kw"
	}
	return string(k)
}

func tkList(l []tk) string {
	var b strings.Builder
	b.WriteString("[")
	for i, t := range l {
		if i > 0 {
			b.WriteString(" ")
		}
		if i > 12 {
			b.WriteString("...")
			break
		}
		fmt.Fprintf(&b, "%s:%q", t.Kind, t.Raw)
	}
	b.WriteString("]")
	return b.String()
}

func runC10(ctx *harness.Ctx) {
	fn := func(t harness.T, leg string, e *Entry, src string) {
		cs := &harness.Case{Leg: leg, Entry: e.Name, Input: src}
		ctx.Eval(1)
		o := e.Guarded(src)
		if !o.Panicked {
			for _, root := range o.Nodes {
				if isNilNode(root) {
					continue
				}
				for _, a := range astx.All(root) {
					if b, ok := a.Node.(*ast.BadNode); ok {
						owner := "BadNode"
						if a.Parent != nil {
							owner = astx.TypeName(a.Parent)
						}
						ctx.Class("bad:" + owner)
						if len(b.Tokens) > 0 {
							ctx.NonTrivial(harness.Hash(e.Name, src, fmt.Sprint(b.NodePos, b.NodeEnd)))
							for _, tok := range b.Tokens {
								switch tok.Kind {
								case "(", "[", "CASE", "WHEN", "<", ">>":
									ctx.Class("bad-contains:" + string(tok.Kind))
								}
							}
						} else {
							ctx.Class("bad:empty")
						}
					}
				}
			}
		}
		ctx.Check(t, cs, oracleC10(ctx, cs))
	}
	runStreams(ctx, streamOpts{
		shortLen: ctx.Pick(3, 4), soup: ctx.Pick(2000, 40000), mutant: ctx.Pick(5000, 80000), nesting: ctx.Pick(20, 100),
		valid: ctx.Pick(300, 3000), unbalanced: ctx.Pick(6000, 80000), entriesPerSrc: 3, long: ctx.Pick(400, 6000),
	}, fn)
	_ = rapid.Bool
}
