package props

import (
	"encoding/json"
	"fmt"
	"strings"

	"github.com/cloudspannerecosystem/memefish"
	"pgregory.net/rapid"

	"verif/internal/astx"
	"verif/internal/gen"
	"verif/internal/harness"
	"verif/internal/reflex"
)

// C08 — the documented Spanner GoogleSQL grammar is accepted; entry points agree.

func init() {
	harness.Register(&harness.Property{
		ID: "C08", Run: runC08, Oracle: oracleC08,
		Rule: "cases: sentences derived from the reference grammar G (internal/gen, written from the documentation; DESIGN.md appendix C): queries, expressions, types, DML, CALL and every DDL family, " +
			"each optional clause drawn on/off, list lengths from {0 where legal, 1, 2, 3+}, keyword-like identifiers in any letter case, rendered with drawn trivia, quoting and escapes; " +
			"and ';'-separated lists of them with or without a trailing ';'. Oracle: the specific entry point and ParseStatement accept and return fully equal trees; list entry points accept and return one statement per sentence, " +
			"each equal up to positions to its stand-alone parse. Non-trivial = a sentence with >=1 optional clause present or a list of >=2; distinct by hash of the canonical lexeme list. " +
			"The feature-tag histogram (classes g:*) shows which productions / clause states were reached.",
		Assumptions: []string{
			"G is the documentation as reproduced offline (no network); forms of the documentation without a node in ast/ast.go (TVF alias, window functions, GROUP BY ROLLUP, QUALIFY, GQL queries) are outside G",
			"a known finding with avoid=<tag> makes G leave that feature out of ~90% of the sentences (counted) so it does not mask the rest of the statement",
		},
	})
}

func specificEntry(kind string) *Entry {
	switch kind {
	case "query":
		return entryByName["ParseQuery"]
	case "ddl":
		return entryByName["ParseDDL"]
	case "dml":
		return entryByName["ParseDML"]
	case "call":
		return entryByName["ParseStatement"]
	case "expr":
		return entryByName["ParseExpr"]
	case "type":
		return entryByName["ParseType"]
	}
	return nil
}

// rejectSig names a rejection by (DDL statement head,) the parser's complaint up to ", but" and the class
// of the offending token. Query / expression / DML constructs nest, so their head is not part of it.
func rejectSig(kind, src string, err error) string {
	toks, _ := reflex.Lex(src)
	head := ""
	if kind == "ddl" {
		var words []string
		for _, t := range toks {
			if (t.Kind == reflex.Keyword || t.Kind == reflex.Ident) && !strings.HasPrefix(t.Raw, "`") && len(words) < 3 {
				words = append(words, strings.ToUpper(t.Raw))
				continue
			}
			break
		}
		n := 2
		if len(words) > 0 && (words[0] == "GRANT" || words[0] == "REVOKE" || words[0] == "ANALYZE") {
			n = 1
		}
		if len(words) > 2 && words[0] == "CREATE" && (words[1] == "OR" || words[1] == "UNIQUE" || words[1] == "NULL_FILTERED") {
			n = 3
		}
		if len(words) > n {
			words = words[:n]
		}
		head = " " + strings.Join(words, " ")
	}
	at, msg := "<eof>", "?"
	if me, ok := err.(memefish.MultiError); ok && len(me) > 0 && me[0] != nil && me[0].Position != nil {
		pos := int(me[0].Position.Pos)
		msg = me[0].Message
		if i := strings.Index(msg, ", but"); i >= 0 {
			msg = msg[:i]
		}
		if i := strings.Index(msg, " but "); i >= 0 {
			msg = msg[:i]
		}
		atIdx := len(toks)
		for i, t := range toks {
			if t.Pos <= pos && pos < t.End {
				at = tokClass(t)
				atIdx = i
				break
			}
		}
		// the statement head only names the root cause when the complaint is about the statement's
		// own skeleton; deeper errors belong to nested queries / expressions
		if atIdx >= 7 && at != "<eof>" {
			head = ""
		}
	}
	return fmt.Sprintf("C08 reject%s: %s at %s", head, msg, at)
}

func oracleC08(ctx *harness.Ctx, cs *harness.Case) (ds []harness.Discrepancy) {
	add := func(sig, msg string) {
		ds = append(ds, harness.Discrepancy{Sig: sig, Msg: msg + " input=" + q(trunc(cs.Input, 300))})
	}
	kind := cs.Aux["kind"]
	src := cs.Input
	if cs.Aux["parts"] != "" {
		var parts []string
		if json.Unmarshal([]byte(cs.Aux["parts"]), &parts) != nil {
			return
		}
		listEntries := []*Entry{entryByName["ParseStatements"]}
		if kind == "ddl" {
			listEntries = append(listEntries, entryByName["ParseDDLs"])
		}
		if kind == "dml" {
			listEntries = append(listEntries, entryByName["ParseDMLs"])
		}
		for _, le := range listEntries {
			o := le.Guarded(src)
			if o.Panicked {
				continue
			}
			if o.Err != nil {
				// only blame the list mechanics if every part is accepted alone
				allOK := true
				for _, part := range parts {
					if po := entryByName[le.Single].Guarded(part); po.Panicked || po.Err != nil {
						allOK = false
					}
				}
				if allOK {
					add("C08 list-rejected "+le.Name+strings.TrimPrefix(rejectSig("list", src, o.Err), "C08 reject"), fmt.Sprintf("%s rejects a list of individually accepted sentences: %v", le.Name, o.Err))
				}
				continue
			}
			if len(o.Nodes) != len(parts) {
				add("C08 list-count "+le.Name, fmt.Sprintf("%s returned %d statements for %d sentences", le.Name, len(o.Nodes), len(parts)))
				continue
			}
			for i, part := range parts {
				po := entryByName[le.Single].Guarded(part)
				if po.Panicked || po.Err != nil {
					continue
				}
				if d := astx.Equal(o.Nodes[i], po.Nodes[0]); d != "" {
					add("C08 list-element-differs "+le.Name+" "+astx.DiffSig(d), fmt.Sprintf("statement %d of the list differs from its stand-alone parse: %s", i, d))
				}
			}
		}
		return
	}
	spec := specificEntry(kind)
	if spec == nil {
		return
	}
	o := spec.Guarded(src)
	if o.Panicked {
		return // C03
	}
	if o.Err != nil {
		add(rejectSig(kind, src, o.Err), fmt.Sprintf("%s rejects a sentence of the documented grammar: %v", spec.Name, o.Err))
		return
	}
	if kind == "expr" || kind == "type" || kind == "call" {
		return
	}
	ps := entryByName["ParseStatement"].Guarded(src)
	if ps.Panicked {
		return
	}
	if ps.Err != nil {
		add("C08 entry-points-disagree ParseStatement-rejects "+kind, fmt.Sprintf("%s accepts but ParseStatement rejects: %v", spec.Name, ps.Err))
		return
	}
	if d := astx.EqualExact(o.Nodes[0], ps.Nodes[0]); d != "" {
		add("C08 entry-points-disagree tree "+kind+" "+astx.DiffSig(d), fmt.Sprintf("%s and ParseStatement return different trees: %s", spec.Name, d))
	}
	return
}

func c08NonTrivial(s gen.Sentence) bool {
	for _, t := range s.Tags {
		if strings.HasSuffix(t, "=1") || strings.HasSuffix(t, "#2+") {
			return true
		}
	}
	return false
}

func runC08(ctx *harness.Ctx) {
	useAvoid(ctx)
	excluded := int64(0)
	ctx.Rapid("sentence", ctx.Pick(15000, 150000), func(t *rapid.T) {
		var c GenCase
		if rapid.IntRange(0, 29).Draw(t, "long") == 0 {
			c = drawGenLong(t, "", 2)
			ctx.Class("long-list-sentence")
		} else {
			c = drawGen(t, "", drawDepth(t))
		}
		excluded += int64(c.S.Avoided)
		cs := &harness.Case{Leg: "sentence", Entry: specificEntry(c.S.Kind).Name, Input: c.Text, Aux: map[string]string{"kind": c.S.Kind, "plain": gen.Plain(c.S.W)}}
		ctx.Eval(1)
		ctx.Class("kind:" + c.S.Kind)
		tagHistogram(ctx, c.S.Tags)
		if c08NonTrivial(c.S) {
			ctx.NonTrivial(harness.Hash(lexClassList(c.S.C), gen.Plain(c.S.C)))
		}
		ctx.Sample(map[string]any{"kind": c.S.Kind, "input": q(trunc(c.Text, 400))})
		ctx.Check(t, cs, oracleC08(ctx, cs))
	})
	ctx.Rapid("list", ctx.Pick(3000, 30000), func(t *rapid.T) {
		kind := rapid.SampledFrom([]string{"query", "ddl", "dml", "mixed", "mixed"}).Draw(t, "listkind")
		n := rapid.IntRange(1, 4).Draw(t, "n")
		var parts []string
		var b strings.Builder
		for i := 0; i < n; i++ {
			k := kind
			if kind == "mixed" {
				k = rapid.SampledFrom([]string{"query", "ddl", "dml", "call"}).Draw(t, "k")
			}
			c := drawGen(t, k, rapid.SampledFrom([]int{1, 2, 2, 3}).Draw(t, "depth"))
			excluded += int64(c.S.Avoided)
			parts = append(parts, c.Text)
			if i > 0 {
				b.WriteString(rapid.SampledFrom([]string{";", ";", "; ", ";\n", " ; ", ";;", "; /* c */ ", ";-- c\n"}).Draw(t, "sep"))
			}
			b.WriteString(c.Text)
			tagHistogram(ctx, c.S.Tags)
		}
		if rapid.Bool().Draw(t, "trailing-semicolon") {
			// a line comment at the end of the last sentence must not swallow the separator
			b.WriteString("\n;")
			ctx.Class("list:trailing-semicolon")
		}
		pj, _ := json.Marshal(parts)
		cs := &harness.Case{Leg: "list", Entry: "ParseStatements", Input: b.String(), Aux: map[string]string{"kind": kind, "parts": string(pj)}}
		ctx.Eval(1)
		ctx.Class(fmt.Sprintf("list:len=%d", n))
		if n >= 2 {
			ctx.NonTrivial(harness.Hash(b.String()))
		}
		ctx.Check(t, cs, oracleC08(ctx, cs))
	})
	// exhaustive size sweep: documented list / nesting forms at every size 0..300 (thresholds at some token count)
	ctx.Leg("size-sweep", func() {
		kinds := map[string]string{"ParseExpr": "expr", "ParseQuery": "query", "ParseDML": "dml", "ParseDDL": "ddl", "ParseType": "type"}
		forSweep(ctx, func(entry, src string, n int) bool {
			kind, ok := kinds[entry]
			if !ok || strings.HasPrefix(src, "ARRAY<ARRAY<") || strings.HasPrefix(src, "((SELECT 1))") || strings.HasPrefix(src, "(((") {
				return true // statement lists belong to the list leg; arrays of arrays and multiply parenthesised operands are not documented forms
			}
			cs := &harness.Case{Leg: "size-sweep", Entry: entry, Input: src, Aux: map[string]string{"kind": kind, "plain": trunc(src, 200)}}
			ctx.Eval(1)
			if n >= 2 {
				ctx.NonTrivial(harness.Hash("sweep", src))
			}
			ctx.Check(nil, cs, oracleC08(ctx, cs))
			return ctx.ViolationCount() < 6
		})
		ctx.Exhaustive(fmt.Sprintf("%d size-sweep templates x every size 0..%d and 2^k-1..2^k+1 up to %d", len(sweepTemplates), ctx.Pick(sweepMax, 1100), ctx.Pick(4096, 16384)), ctx.ViolationCount() == 0)
	})
	ctx.Leg("size-sweep-2d", func() {
		kinds := map[string]string{"ParseExpr": "expr", "ParseQuery": "query", "ParseDML": "dml", "ParseDDL": "ddl", "ParseType": "type"}
		forSweep2(ctx, func(entry, src string, a, b int) bool {
			kind, ok := kinds[entry]
			if !ok || strings.Contains(src, "ARRAY<ARRAY<") || strings.Contains(src, "((SELECT 1))") {
				return true // as in the one-parameter sweep: only documented forms
			}
			cs := &harness.Case{Leg: "size-sweep-2d", Entry: entry, Input: src, Aux: map[string]string{"kind": kind, "plain": trunc(src, 200)}}
			ctx.Eval(1)
			if a >= 2 && b >= 2 {
				ctx.NonTrivial(harness.Hash("sweep2", src))
			}
			ctx.Check(nil, cs, oracleC08(ctx, cs))
			return ctx.ViolationCount() < 6
		})
	})
	ctx.SetExtra("sentences_with_avoided_known_feature", float64(excluded))
}
