package props

import (
	"fmt"
	"regexp"
	"strconv"
	"strings"

	"github.com/cloudspannerecosystem/memefish"
	"github.com/cloudspannerecosystem/memefish/token"
	"pgregory.net/rapid"

	"verif/internal/harness"
	"verif/internal/mutate"
)

// C20 — reported error positions resolve to the right line, column and excerpt.

func init() {
	harness.Register(&harness.Property{
		ID: "C20", Run: runC20, Oracle: oracleC20,
		Rule: "cases: (a) every text of <=7 symbols over {a, é, \\n, \\r} (21 845 texts) with every pair 0<=pos<=end<=len(bytes); random texts of <=40 symbols over {a, é, 日, space, \\n, \\r} with all / drawn pairs; texts of <=48 bytes dense in newlines and bytes next to 0x0A (0x0B, 0x09, 0x8A ..., NUL, 0xFF) with every position; " +
			"texts of 1-65 537 lines with positions on the first, last and boundary lines (10, 100, 1000, 10000; 64 ... 65536); call sequences on one File value; 2-4 File values alive at once with interleaved calls and unrelated failing parses in between; 1-4 lines of 0-65 537 bytes with positions and range ends inside the long line; " +
			"(b) every error returned by any entry point on byte soups and mutants. Oracle: line = number of \\n before pos, column = byte distance from the line start, the excerpt quotes exactly lines Line..EndLine with their numbers; " +
			"Error() starts with 'syntax error: file:line+1:col+1: '. Non-trivial = a text with >=2 lines and a position on a line >=1, at the end of the buffer or on an empty last line (a), an error on a multi-line input (b); distinct by (text,pos,end).",
		Assumptions: []string{"blank lines and the cursor line in Position.Source are presentation and are skipped when the quoted lines are extracted"},
	})
}

var gutterRe = regexp.MustCompile(`^ *(\d+)\|  (.*)$`)

func refResolve(text string, p int) (line, col int) {
	line = strings.Count(text[:p], "\n")
	start := strings.LastIndex(text[:p], "\n") + 1
	return line, p - start
}

func oracleC20(ctx *harness.Ctx, cs *harness.Case) (ds []harness.Discrepancy) {
	add := func(sig, msg string) {
		ds = append(ds, harness.Discrepancy{Sig: sig, Msg: msg + " text=" + q(trunc(cs.Input, 80)) + " aux=" + fmt.Sprint(cs.Aux)})
	}
	text := cs.Input
	if cs.Leg == "errors" || cs.Entry != "" {
		return c20Errors(cs, add)
	}
	if cs.Aux["ops"] != "" {
		c20Sequence(text, cs.Aux["ops"], add)
		return
	}
	if cs.Aux["mops"] != "" {
		c20Interleaved(text, cs.Aux["mops"], add)
		return
	}
	pos, _ := strconv.Atoi(cs.Aux["pos"])
	end, _ := strconv.Atoi(cs.Aux["end"])
	c20Position(text, "f.sql", pos, end, add)
	return
}

func c20Position(text, file string, pos, end int, add func(sig, msg string)) {
	c20PositionOn(&token.File{FilePath: file, Buffer: text}, text, file, pos, end, add)
}

// c20PositionOn checks Position(pos, end) and ResolvePos(pos) of the given File value (fresh or already used) against the arithmetic.
func c20PositionOn(f *token.File, text, file string, pos, end int, add func(sig, msg string)) {
	var p *token.Position
	o := guarded(func() ([]astNode, error) { p = f.Position(token.Pos(pos), token.Pos(end)); return nil, nil })
	if o.Panicked {
		where := "middle"
		if end == len(text) {
			where = "end-of-buffer"
		}
		add("C20 panic Position "+panicKind(o.PanicVal)+" "+where, fmt.Sprintf("Position(%d,%d) panicked: %v", pos, end, o.PanicVal))
		return
	}
	wl, wc := refResolve(text, pos)
	el, ec := refResolve(text, end)
	if l, c := f.ResolvePos(token.Pos(pos)); l != wl || c != wc {
		add("C20 ResolvePos", fmt.Sprintf("ResolvePos(%d) = (%d,%d), want (%d,%d)", pos, l, c, wl, wc))
	}
	if p.Line != wl || p.Column != wc || p.EndLine != el || p.EndColumn != ec || int(p.Pos) != pos || int(p.End) != end {
		add("C20 Position fields", fmt.Sprintf("Position(%d,%d) = %d:%d-%d:%d, want %d:%d-%d:%d", pos, end, p.Line, p.Column, p.EndLine, p.EndColumn, wl, wc, el, ec))
	}
	if p.FilePath != file {
		add("C20 Position file", "FilePath differs")
	}
	if s := p.String(); s != fmt.Sprintf("%s:%d:%d", file, wl+1, wc+1) {
		add("C20 Position String", fmt.Sprintf("String() = %q", s))
	}
	// excerpt
	lines := strings.Split(text, "\n")
	var got []string
	var nums []int
	for _, ln := range strings.Split(p.Source, "\n") {
		m := gutterRe.FindStringSubmatch(ln)
		if m == nil {
			continue // blank line or cursor line
		}
		n, _ := strconv.Atoi(m[1])
		nums = append(nums, n)
		got = append(got, m[2])
	}
	want := lines[wl : el+1]
	ok := len(got) == len(want)
	for i := 0; ok && i < len(want); i++ {
		// a quoted line is cut at a \r only by our line splitting of Source (\r stays inside a line): compare as is
		if got[i] != want[i] || nums[i] != wl+1+i {
			ok = false
		}
	}
	if !ok {
		kind := "single-line"
		if wl != el {
			kind = "multi-line"
		}
		add("C20 excerpt "+kind, fmt.Sprintf("Position(%d,%d).Source quotes %q with numbers %v, want lines %d..%d %q", pos, end, got, nums, wl+1, el+1, want))
	}
}

// c20Sequence runs a sequence of ResolvePos / Position calls on ONE File value (the line table is
// built lazily and any cached state lives there) and checks every result against the arithmetic.
// ops: "r:<pos>" or "p:<pos>:<end>", comma separated.
func c20Sequence(text, ops string, add func(sig, msg string)) {
	f := &token.File{FilePath: "f.sql", Buffer: text}
	for i, op := range strings.Split(ops, ",") {
		parts := strings.Split(op, ":")
		if len(parts) < 2 {
			continue
		}
		p, _ := strconv.Atoi(parts[1])
		if p < 0 || p > len(text) {
			continue
		}
		wl, wc := refResolve(text, p)
		switch parts[0] {
		case "r":
			var l, c int
			if pn := callGuard(func() { l, c = f.ResolvePos(token.Pos(p)) }); pn != nil {
				add("C20 panic ResolvePos in-sequence", fmt.Sprintf("call #%d ResolvePos(%d) of sequence %q panicked: %v", i, p, ops, pn))
				return
			}
			if l != wl || c != wc {
				add("C20 ResolvePos in-sequence", fmt.Sprintf("call #%d of sequence %q on one File: ResolvePos(%d) = (%d,%d), want (%d,%d)", i, ops, p, l, c, wl, wc))
				return
			}
		case "p":
			if len(parts) < 3 {
				continue
			}
			e, _ := strconv.Atoi(parts[2])
			if e < p || e > len(text) {
				continue
			}
			el, ec := refResolve(text, e)
			var pos *token.Position
			if pn := callGuard(func() { pos = f.Position(token.Pos(p), token.Pos(e)) }); pn != nil {
				add("C20 panic Position in-sequence", fmt.Sprintf("call #%d Position(%d,%d) of sequence %q panicked: %v", i, p, e, ops, pn))
				return
			}
			if pos.Line != wl || pos.Column != wc || pos.EndLine != el || pos.EndColumn != ec {
				add("C20 Position in-sequence", fmt.Sprintf("call #%d of sequence %q on one File: Position(%d,%d) = %d:%d-%d:%d, want %d:%d-%d:%d", i, ops, p, e, pos.Line, pos.Column, pos.EndLine, pos.EndColumn, wl, wc, el, ec))
				return
			}
		}
	}
}

// c20Interleaved keeps several File values alive at once and interleaves calls on them (and, for "x", a failing parse of an
// unrelated input, which builds one more line table inside memefish): every result must depend on its own File only.
// texts are joined by NUL in the case input; ops: "<file>:<pos>:<end>" or "x", comma separated.
func c20Interleaved(input, ops string, add func(sig, msg string)) {
	texts := strings.Split(input, "\x00")
	files := make([]*token.File, len(texts))
	for i, tx := range texts {
		files[i] = &token.File{FilePath: fmt.Sprintf("f%d.sql", i), Buffer: tx}
	}
	for i, op := range strings.Split(ops, ",") {
		if op == "x" {
			callGuard(func() { _, _ = memefish.ParseExpr("other.sql", "1 +\n\n+ (\n") })
			continue
		}
		parts := strings.Split(op, ":")
		if len(parts) != 3 {
			continue
		}
		fi, _ := strconv.Atoi(parts[0])
		p, _ := strconv.Atoi(parts[1])
		e, _ := strconv.Atoi(parts[2])
		if fi < 0 || fi >= len(files) || p < 0 || e < p || e > len(texts[fi]) {
			continue
		}
		n := 0
		c20PositionOn(files[fi], texts[fi], files[fi].FilePath, p, e, func(sig, msg string) {
			n++
			add(strings.Replace(sig, "C20 ", "C20 interleaved ", 1), fmt.Sprintf("call #%d (%s) of %q with %d Files alive: %s", i, op, ops, len(files), msg))
		})
		if n > 0 {
			return
		}
	}
}

func c20Errors(cs *harness.Case, add func(sig, msg string)) []harness.Discrepancy {
	src := cs.Input
	var errs []*memefish.Error
	o := guarded(func() ([]astNode, error) {
		switch cs.Entry {
		case entrySplit:
			_, err := memefish.SplitRawStatements("dir/f.sql", src)
			if e, ok := err.(*memefish.Error); ok && e != nil {
				errs = append(errs, e)
			}
		case entryLex:
			l := &memefish.Lexer{File: &token.File{FilePath: "dir/f.sql", Buffer: src}}
			for i := 0; i <= len(src)+1; i++ {
				err := l.NextToken()
				if e, ok := err.(*memefish.Error); ok && e != nil {
					errs = append(errs, e)
				}
				if err != nil || l.Token.Kind == token.TokenEOF {
					break
				}
			}
		default:
			p := &memefish.Parser{Lexer: &memefish.Lexer{File: &token.File{FilePath: "dir/f.sql", Buffer: src}}}
			var err error
			switch cs.Entry {
			case "ParseStatement":
				_, err = p.ParseStatement()
			case "ParseStatements":
				_, err = p.ParseStatements()
			case "ParseQuery":
				_, err = p.ParseQuery()
			case "ParseExpr":
				_, err = p.ParseExpr()
			case "ParseType":
				_, err = p.ParseType()
			case "ParseDDL":
				_, err = p.ParseDDL()
			case "ParseDDLs":
				_, err = p.ParseDDLs()
			case "ParseDML":
				_, err = p.ParseDML()
			case "ParseDMLs":
				_, err = p.ParseDMLs()
			}
			if me, ok := err.(memefish.MultiError); ok {
				errs = append(errs, me...)
			}
		}
		return nil, nil
	})
	if o.Panicked {
		return nil // C03's business
	}
	for _, e := range errs {
		if e == nil || e.Position == nil {
			continue // C03 / C09
		}
		p, en := int(e.Position.Pos), int(e.Position.End)
		if p < 0 || en < p || en > len(src) {
			add("C20 error-range", fmt.Sprintf("error %q has range [%d,%d) with len %d", e.Message, p, en, len(src)))
			continue
		}
		wl, wc := refResolve(src, p)
		prefix := fmt.Sprintf("syntax error: dir/f.sql:%d:%d: ", wl+1, wc+1)
		if !strings.HasPrefix(e.Error(), prefix) {
			add("C20 error-prefix", fmt.Sprintf("Error() = %q, want prefix %q", trunc(e.Error(), 80), prefix))
		}
		if e.Position.Line != wl || e.Position.Column != wc {
			add("C20 error-line-col", fmt.Sprintf("error at %d has Line/Column %d/%d, want %d/%d", p, e.Position.Line, e.Position.Column, wl, wc))
		}
		// and the stored Position must be what File.Position computes for that range
		c20Position(src, "dir/f.sql", p, en, add)
	}
	return nil
}

func c20NonTrivial(text string, pos, end int) bool {
	if strings.Count(text, "\n") == 0 {
		return false
	}
	l, _ := refResolve(text, pos)
	return l >= 1 || end == len(text) || strings.HasSuffix(text, "\n")
}

func runC20(ctx *harness.Ctx) {
	syms := []string{"a", "é", "\n", "\r"}
	n := ctx.Pick(7, 8)
	ctx.Leg("exhaustive-texts", func() {
		enumSeq(len(syms), n, ctx.Shard, ctx.Of, func(ix []int) bool {
			var b strings.Builder
			for _, i := range ix {
				b.WriteString(syms[i])
			}
			text := b.String()
			for pos := 0; pos <= len(text); pos++ {
				for end := pos; end <= len(text); end++ {
					cs := &harness.Case{Leg: "exhaustive-texts", Input: text, Aux: map[string]string{"pos": strconv.Itoa(pos), "end": strconv.Itoa(end)}}
					ctx.Eval(1)
					if c20NonTrivial(text, pos, end) {
						ctx.NonTrivial(harness.Hash(text, cs.Aux["pos"], cs.Aux["end"]))
					}
					ctx.Check(nil, cs, oracleC20(ctx, cs))
				}
			}
			return ctx.ViolationCount() < 6
		})
		ctx.Exhaustive(fmt.Sprintf("all texts of <=%d symbols over {a, é, \\n, \\r} x all 0<=pos<=end<=len", n), ctx.ViolationCount() == 0)
	})
	// call sequences on one shared File: every ordered pair of ResolvePos calls on every text of <=5 symbols
	ctx.Leg("exhaustive-pairs-one-file", func() {
		enumSeq(len(syms), ctx.Pick(5, 6), ctx.Shard, ctx.Of, func(ix []int) bool {
			var b strings.Builder
			for _, i := range ix {
				b.WriteString(syms[i])
			}
			text := b.String()
			for p1 := 0; p1 <= len(text); p1++ {
				for p2 := 0; p2 <= len(text); p2++ {
					ops := fmt.Sprintf("r:%d,r:%d", p1, p2)
					cs := &harness.Case{Leg: "exhaustive-pairs-one-file", Input: text, Aux: map[string]string{"ops": ops}}
					ctx.Eval(1)
					if strings.Count(text, "\n") > 0 && p1 != p2 {
						ctx.NonTrivial(harness.Hash(text, ops))
					}
					ctx.Check(nil, cs, oracleC20(ctx, cs))
				}
			}
			return ctx.ViolationCount() < 6
		})
		ctx.Exhaustive("all texts of <=5/6 symbols x all ordered pairs of ResolvePos calls on one File value", ctx.ViolationCount() == 0)
	})
	big := []string{"a", "é", "日", " ", "\n", "\r", "\n", "abc", "\r\n"}
	ctx.Rapid("sequences-one-file", ctx.Pick(5000, 100000), func(t *rapid.T) {
		k := rapid.IntRange(0, 40).Draw(t, "n")
		var b strings.Builder
		for i := 0; i < k; i++ {
			b.WriteString(rapid.SampledFrom(big).Draw(t, "sym"))
		}
		text := b.String()
		n := rapid.IntRange(2, 8).Draw(t, "ops")
		var ops []string
		for i := 0; i < n; i++ {
			p := rapid.IntRange(0, len(text)).Draw(t, "pos")
			if rapid.Bool().Draw(t, "position") {
				ops = append(ops, fmt.Sprintf("p:%d:%d", p, rapid.IntRange(p, len(text)).Draw(t, "end")))
			} else {
				ops = append(ops, fmt.Sprintf("r:%d", p))
			}
		}
		cs := &harness.Case{Leg: "sequences-one-file", Input: text, Aux: map[string]string{"ops": strings.Join(ops, ",")}}
		ctx.Eval(1)
		if strings.Count(text, "\n") > 0 {
			ctx.NonTrivial(harness.Hash(text, cs.Aux["ops"]))
		}
		ctx.Check(t, cs, oracleC20(ctx, cs))
	})
	// several Files alive at once, calls interleaved (line tables are built lazily: whatever they are built in must not be shared)
	ctx.Rapid("interleaved-files", ctx.Pick(3000, 60000), func(t *rapid.T) {
		nf := rapid.IntRange(2, 4).Draw(t, "files")
		texts := make([]string, nf)
		for j := range texts {
			var b strings.Builder
			if rapid.IntRange(0, 5).Draw(t, "many") == 0 { // a table of 60..70 / 120..140 entries now and then
				b.WriteString(strings.Repeat(rapid.SampledFrom([]string{"\n", "a\n", "ab\n"}).Draw(t, "line"), rapid.SampledFrom([]int{60, 62, 63, 64, 65, 70, 127, 128, 129}).Draw(t, "lines")))
			}
			for i, k := 0, rapid.IntRange(1, 40).Draw(t, "n"); i < k; i++ {
				b.WriteString(rapid.SampledFrom(big).Draw(t, "sym"))
			}
			texts[j] = b.String()
		}
		var ops []string
		for i, n := 0, rapid.IntRange(3, 10).Draw(t, "ops"); i < n; i++ {
			if rapid.IntRange(0, 7).Draw(t, "other-parse") == 0 {
				ops = append(ops, "x")
				continue
			}
			fi := rapid.IntRange(0, nf-1).Draw(t, "file")
			p := rapid.IntRange(0, len(texts[fi])).Draw(t, "pos")
			ops = append(ops, fmt.Sprintf("%d:%d:%d", fi, p, rapid.IntRange(p, len(texts[fi])).Draw(t, "end")))
		}
		cs := &harness.Case{Leg: "interleaved-files", Input: strings.Join(texts, "\x00"), Aux: map[string]string{"mops": strings.Join(ops, ",")}}
		ctx.Eval(1)
		ctx.NonTrivial(harness.Hash(cs.Input, cs.Aux["mops"]))
		ctx.Check(t, cs, oracleC20(ctx, cs))
	})
	// long lines: line lengths around 4096 / 8192 / 65536 (buffers, clipping), ranges that end before the end of the line
	ctx.Rapid("long-lines", ctx.Pick(400, 6000), func(t *rapid.T) {
		var b strings.Builder
		nl := rapid.IntRange(1, 4).Draw(t, "lines")
		starts := make([]int, 0, nl+1)
		for i := 0; i < nl; i++ {
			starts = append(starts, b.Len())
			w := rapid.SampledFrom([]int{0, 1, 80, 255, 256, 257, 1023, 1024, 1025, 4095, 4096, 4097, 5000, 8191, 8192, 8193, 20000, 65535, 65536, 65537}).Draw(t, "width")
			unit := rapid.SampledFrom([]string{"a", "col_0000, ", "é", "x y "}).Draw(t, "unit")
			b.WriteString(strings.Repeat(unit, w/len(unit)+1)[:w/len(unit)*len(unit)])
			if i < nl-1 || rapid.Bool().Draw(t, "terminated") {
				b.WriteByte('\n')
			}
		}
		starts = append(starts, b.Len())
		text := b.String()
		li := rapid.IntRange(0, nl-1).Draw(t, "line")
		lineLen := starts[li+1] - starts[li]
		pos := starts[li] + rapid.SampledFrom([]int{0, 1, 10, lineLen / 2, max(0, lineLen-2), 4095, 4096, 4097}).Draw(t, "col")
		pos = min(pos, len(text))
		end := min(len(text), pos+rapid.SampledFrom([]int{0, 1, 5, 4096, 70000}).Draw(t, "span"))
		cs := &harness.Case{Leg: "long-lines", Input: text, Aux: map[string]string{"pos": strconv.Itoa(pos), "end": strconv.Itoa(end)}}
		ctx.Eval(1)
		if len(text) > 4096 {
			ctx.NonTrivial(harness.Hash(text, cs.Aux["pos"], cs.Aux["end"]))
		}
		ctx.Check(t, cs, oracleC20(ctx, cs))
	})
	ctx.Rapid("random-texts", ctx.Pick(5000, 100000), func(t *rapid.T) {
		k := rapid.IntRange(0, 40).Draw(t, "n")
		var b strings.Builder
		for i := 0; i < k; i++ {
			b.WriteString(rapid.SampledFrom(big).Draw(t, "sym"))
		}
		text := b.String()
		pos := rapid.IntRange(0, len(text)).Draw(t, "pos")
		end := rapid.IntRange(pos, len(text)).Draw(t, "end")
		cs := &harness.Case{Leg: "random-texts", Input: text, Aux: map[string]string{"pos": strconv.Itoa(pos), "end": strconv.Itoa(end)}}
		ctx.Eval(1)
		if c20NonTrivial(text, pos, end) {
			ctx.NonTrivial(harness.Hash(text, cs.Aux["pos"], cs.Aux["end"]))
		}
		ctx.Sample(map[string]any{"text": q(text), "pos": pos, "end": end})
		ctx.Check(t, cs, oracleC20(ctx, cs))
	})
	// bytes that differ from '\n' in one bit or by one (0x0B, 0x09, 0x8A, 0x2A ...), CR, NEL, NUL, 0xFF, dense around newlines;
	// every position of every text, texts long enough to span several machine words
	neighbours := []byte{0x0b, 0x0b, 0x09, 0x0c, 0x0d, 0x08, 0x0e, 0x8a, 0x1a, 0x2a, 0x4a, 0x0a ^ 0x01, 0x0a ^ 0x02, 0x0a ^ 0x04, 0x00, 0xff, 0x85, 0xc2, 0x7f, 0x80}
	ctx.Rapid("newline-neighbours", ctx.Pick(1500, 30000), func(t *rapid.T) {
		k := rapid.IntRange(1, 48).Draw(t, "n")
		buf := make([]byte, 0, k)
		for i := 0; i < k; i++ {
			switch c := rapid.IntRange(0, 9).Draw(t, "class"); {
			case c < 4:
				buf = append(buf, '\n')
			case c < 7:
				buf = append(buf, neighbours[rapid.IntRange(0, len(neighbours)-1).Draw(t, "neighbour")])
			case c < 8:
				buf = append(buf, rapid.Byte().Draw(t, "byte"))
			default:
				buf = append(buf, 'a')
			}
		}
		text := string(buf)
		extra := rapid.IntRange(0, len(text)).Draw(t, "end")
		for pos := 0; pos <= len(text); pos++ {
			end := pos
			if extra > pos && pos%5 == 0 {
				end = extra
			}
			cs := &harness.Case{Leg: "newline-neighbours", Input: text, Aux: map[string]string{"pos": strconv.Itoa(pos), "end": strconv.Itoa(end)}}
			ctx.Eval(1)
			if c20NonTrivial(text, pos, end) {
				ctx.NonTrivial(harness.Hash(text, cs.Aux["pos"], cs.Aux["end"]))
			}
			if !ctx.Check(t, cs, oracleC20(ctx, cs)) {
				return
			}
		}
	})
	// many lines: line counts around 10 / 100 / 1000 / 10000 (gutter width), 64 / 128 / 256 / 1024 / 4096 / 65536 (tables, caches);
	// positions on the first, the last and the boundary lines; single-line and multi-line ranges
	ctx.Rapid("many-lines", ctx.Pick(250, 4000), func(t *rapid.T) {
		n := rapid.SampledFrom(append(append([]int{}, manyLineCounts...), 9998, 9999, 10000, 10001, 65535, 65536, 65537)).Draw(t, "lines")
		if rapid.IntRange(0, 4).Draw(t, "free-lines") == 0 {
			n = rapid.IntRange(1, 1200).Draw(t, "n-lines")
		}
		line := rapid.SampledFrom([]string{"", "a", "ab", "SELECT 1;", "é", "\r", "x\v"}).Draw(t, "line")
		var b strings.Builder
		starts := make([]int, 0, n+1)
		for i := 0; i < n; i++ {
			starts = append(starts, b.Len())
			b.WriteString(line)
			if i%7 == 3 {
				b.WriteString("zz")
			}
			b.WriteByte('\n')
		}
		starts = append(starts, b.Len())
		if rapid.Bool().Draw(t, "last-line-unterminated") {
			b.WriteString("tail")
		}
		text := b.String()
		// a line of interest: boundary indices or any
		cands := []int{0, 1, 8, 9, 10, 98, 99, 100, 126, 127, 128, 254, 255, 256, 998, 999, 1000, 1001, 9998, 9999, 10000, n - 2, n - 1, n}
		li := cands[rapid.IntRange(0, len(cands)-1).Draw(t, "line-of-interest")]
		if li < 0 || li > n || rapid.IntRange(0, 3).Draw(t, "any-line") == 0 {
			li = rapid.IntRange(0, n).Draw(t, "any")
		}
		pos := starts[li]
		if pos < len(text) {
			pos += rapid.IntRange(0, min(3, len(text)-pos)).Draw(t, "col")
		}
		end := pos
		switch rapid.IntRange(0, 4).Draw(t, "range") {
		case 0:
		case 1:
			end = pos + rapid.IntRange(0, min(12, len(text)-pos)).Draw(t, "span")
		case 2, 3:
			lj := min(n, li+rapid.IntRange(1, 3).Draw(t, "lines-spanned"))
			end = max(pos, starts[lj])
		default:
			end = len(text)
			if end-pos > 4000 {
				end = pos + 4000
			}
		}
		cs := &harness.Case{Leg: "many-lines", Input: text, Aux: map[string]string{"pos": strconv.Itoa(pos), "end": strconv.Itoa(end)}}
		ctx.Eval(1)
		ctx.Class(fmt.Sprintf("many-lines:digits-%d", len(strconv.Itoa(li+1))))
		ctx.NonTrivial(harness.Hash(text, cs.Aux["pos"], cs.Aux["end"]))
		ctx.Check(t, cs, oracleC20(ctx, cs))
	})
	ctx.Rapid("errors-many-lines", ctx.Pick(150, 2500), func(t *rapid.T) {
		src, where := drawManyLines(t)
		en := rapid.SampledFrom(c03Entries).Draw(t, "entry")
		cs := &harness.Case{Leg: "errors", Entry: en, Input: src}
		ctx.Eval(1)
		ctx.Class("errors-many-lines:" + where)
		ctx.NonTrivial(harness.Hash(en, src))
		ctx.Check(t, cs, oracleC20(ctx, cs))
	})
	ctx.Rapid("errors", ctx.Pick(6000, 80000), func(t *rapid.T) {
		var src string
		switch rapid.IntRange(0, 3).Draw(t, "kind") {
		case 3:
			vs := errorSiteVariants()
			src = vs[rapid.IntRange(0, len(vs)-1).Draw(t, "error-site")]
		case 0:
			src = mutate.Soup(t, 24)
		case 1:
			base, _ := drawSentence(t)
			src = mutate.Tokens(t, base, 3)
		default:
			base, _ := drawSentence(t)
			src = mutate.Inject(t, base)
		}
		if rapid.Bool().Draw(t, "multiline") {
			src = strings.ReplaceAll(src, " ", rapid.SampledFrom([]string{"\n", " \n", "\r\n", "\n\n"}).Draw(t, "nl"))
		}
		en := rapid.SampledFrom(c03Entries).Draw(t, "entry")
		cs := &harness.Case{Leg: "errors", Entry: en, Input: src}
		ctx.Eval(1)
		ctx.Class("errors:" + en)
		if strings.Contains(src, "\n") {
			ctx.NonTrivial(harness.Hash(en, src))
		}
		ctx.Check(t, cs, oracleC20(ctx, cs))
	})
}
