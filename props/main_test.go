package props

import (
	"fmt"
	"os"
	"strconv"
	"testing"

	"verif/internal/harness"
)

// TestProp is the single entry of the compiled test binary. The driver
// (cmd/vcheck) selects the property, tier, seed and shard through the
// environment; a replay file re-executes only the oracle.
func TestProp(t *testing.T) {
	id := os.Getenv("VERIF_PROP")
	if id == "" {
		t.Skip("VERIF_PROP not set (run through ./check.sh)")
	}
	p := harness.Lookup(id)
	if p == nil {
		t.Fatalf("unknown property %q", id)
	}
	ctx := harness.NewCtx(p)
	defer ctx.Finish()
	curCtx = ctx

	if path := os.Getenv("VERIF_REPLAY"); path != "" {
		cs, err := harness.LoadCase(path)
		if err != nil {
			t.Fatalf("replay: %v", err)
		}
		if p.Oracle == nil {
			t.Fatalf("property %s has no replay oracle", id)
		}
		ds := p.Oracle(ctx, cs)
		bad := 0
		for _, d := range ds {
			known := ""
			if ctx.IsKnown(d.Sig) {
				known = " (known finding)"
			} else {
				bad++
			}
			fmt.Printf("REPLAY-DISCREPANCY%s sig=%s msg=%s\n", known, strconv.Quote(d.Sig), d.Msg)
		}
		if bad > 0 {
			fmt.Printf("REPLAY-RESULT violation\n")
		} else {
			fmt.Printf("REPLAY-RESULT ok\n")
		}
		return
	}

	ctx.ConfirmKnown()
	p.Run(ctx)
}
