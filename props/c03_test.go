package props

import (
	"fmt"
	"strings"
	"time"
	"unicode/utf8"

	"github.com/cloudspannerecosystem/memefish"
	"github.com/cloudspannerecosystem/memefish/token"
	"pgregory.net/rapid"

	"verif/internal/harness"
	"verif/internal/mutate"
	"verif/internal/reflex"
)

// C03 — parsing entry points are total: no panic, always terminate, typed errors.

const (
	entrySplit = "SplitRawStatements"
	entryLex   = "Lexer.NextToken"
)

var c03Entries = append(append([]string{}, entryNames...), entrySplit, entryLex)

func init() {
	harness.Register(&harness.Property{
		ID:       "C03",
		Run:      runC03,
		Oracle:   oracleC03,
		Minimize: true,
		Rule: "cases: byte soups over all 256 byte values, token/byte-level mutants of corpus and generated sentences, hostile lexical fragments " +
			"as first token / after ';', every string of length <=4 (quick) or <=5 (thorough) over a 24-symbol lexical alphabet, valid sentences (incl. one 120-330 element list), inputs of 1-4097 lines, and nesting probes; " +
			"each is passed to all 11 public functions under recover and a 20 s watchdog. Non-trivial = the function did not accept the input " +
			"cleanly (error or recovery path); distinct by hash of (entry point, input).",
		Assumptions: []string{
			"termination is observed within a 20 s watchdog (>=100x the normal cost of the largest probe); stack exhaustion beyond ~10^5 nesting levels is outside the explored domain",
			"error messages are not inspected, only Go types, nil-ness and positions",
		},
	})
}

// oracleC03 calls one public function on one input and checks the totality contract.
func oracleC03(ctx *harness.Ctx, cs *harness.Case) (ds []harness.Discrepancy) {
	src := cs.Input
	add := func(sig, msg string) {
		ds = append(ds, harness.Discrepancy{Sig: sig, Msg: msg})
	}
	done := ctx.Guard(cs, 20*time.Second)
	defer done()
	switch cs.Entry {
	case entrySplit:
		var res []*memefish.RawStatement
		var err error
		o := guarded(func() (n []astNode, e error) {
			res, err = memefish.SplitRawStatements("", src)
			return nil, nil
		})
		if o.Panicked {
			add(fmt.Sprintf("C03 panic %s at %s", panicKind(o.PanicVal), panicSite(o.Stack)),
				fmt.Sprintf("SplitRawStatements panicked: %v", o.PanicVal))
			return
		}
		if err != nil {
			if e, ok := err.(*memefish.Error); !ok || e == nil {
				add("C03 error-type SplitRawStatements", fmt.Sprintf("error is %T, want *memefish.Error", err))
			} else if e.Position == nil {
				add("C03 error-position-nil SplitRawStatements", "error without Position")
			}
			if res != nil {
				add("C03 result-with-error SplitRawStatements", "non-nil result together with an error")
			}
		} else if len(res) == 0 {
			add("C03 empty-result SplitRawStatements", "nil error but no pieces")
		}
	case entryLex:
		o := guarded(func() (n []astNode, e error) {
			l := &memefish.Lexer{File: &token.File{Buffer: src}}
			for i := 0; ; i++ {
				if i > len(src)+2 {
					add("C03 lexer no-progress", "more NextToken calls than bytes")
					return nil, nil
				}
				err := l.NextToken()
				if err != nil {
					if e, ok := err.(*memefish.Error); !ok || e == nil {
						add("C03 error-type Lexer.NextToken", fmt.Sprintf("error is %T, want *memefish.Error", err))
					} else if e.Position == nil {
						add("C03 error-position-nil Lexer.NextToken", "error without Position")
					}
					// a caller that keeps calling NextToken after an error must still get a normal return
					for k := 0; k < 3; k++ {
						if e2 := l.NextToken(); e2 != nil {
							if _, ok := e2.(*memefish.Error); !ok {
								add("C03 error-type Lexer.NextToken", fmt.Sprintf("error after an error is %T", e2))
							}
						}
					}
					return nil, nil
				}
				if l.Token.Kind == token.TokenEOF {
					return nil, nil
				}
				if l.Token.End <= l.Token.Pos {
					add("C03 lexer empty-token", fmt.Sprintf("token %q kind %s is empty", l.Token.Raw, l.Token.Kind))
					return nil, nil
				}
			}
		})
		if o.Panicked {
			add(fmt.Sprintf("C03 panic %s at %s", panicKind(o.PanicVal), panicSite(o.Stack)),
				fmt.Sprintf("Lexer.NextToken panicked: %v", o.PanicVal))
		}
	default:
		e := entryByName[cs.Entry]
		if e == nil {
			add("C03 harness", "unknown entry "+cs.Entry)
			return
		}
		o := e.Guarded(src)
		if o.Panicked {
			add(fmt.Sprintf("C03 panic %s at %s", panicKind(o.PanicVal), panicSite(o.Stack)),
				fmt.Sprintf("%s panicked: %v", e.Name, o.PanicVal))
			return
		}
		if o.Err != nil {
			me, ok := o.Err.(memefish.MultiError)
			switch {
			case !ok:
				add("C03 error-type "+e.Name, fmt.Sprintf("error is %T, want memefish.MultiError", o.Err))
			case len(me) == 0:
				add("C03 error-empty "+e.Name, "non-nil MultiError without elements")
			default:
				for _, x := range me {
					if x == nil {
						add("C03 error-nil-element "+e.Name, "MultiError contains a nil *Error")
					} else if x.Position == nil {
						add("C03 error-position-nil "+e.Name, "*Error without Position: "+x.Message)
					}
				}
			}
		}
		if !e.List {
			if len(o.Nodes) != 1 || isNilNode(o.Nodes[0]) {
				add("C03 nil-node "+e.Name, "single-node entry point returned a nil node")
			}
		} else {
			for _, n := range o.Nodes {
				if isNilNode(n) {
					add("C03 nil-node "+e.Name, "list entry point returned a nil element")
				}
			}
		}
	}
	return
}

// c03Classify records the class counters and non-triviality of one call.
func c03Classify(ctx *harness.Ctx, entry, src string) {
	ctx.Eval(1)
	clean := false
	switch entry {
	case entrySplit:
		_, err := safeSplit(src)
		clean = err == nil
	case entryLex:
		_, err := safeLex(src)
		clean = err == nil
	default:
		o := entryByName[entry].Guarded(src)
		clean = !o.Panicked && o.Err == nil
	}
	if !clean {
		ctx.NonTrivial(harness.Hash(entry, src))
		ctx.Class("not-accepted")
	} else {
		ctx.Class("accepted")
	}
}

func safeSplit(src string) (r []*memefish.RawStatement, err error) {
	defer func() {
		if p := recover(); p != nil {
			err = fmt.Errorf("panic: %v", p)
		}
	}()
	return memefish.SplitRawStatements("", src)
}

func safeLex(src string) (r []token.Token, err error) {
	defer func() {
		if p := recover(); p != nil {
			err = fmt.Errorf("panic: %v", p)
		}
	}()
	return mfLex(src)
}

// c03InputClasses tallies the input classes the property names.
func c03InputClasses(ctx *harness.Ctx, src string) {
	if !utf8.ValidString(src) {
		ctx.Class("input:invalid-utf8")
	}
	toks, err := reflex.Lex(src)
	if err != nil {
		ctx.Class("input:lexically-malformed")
		if len(toks) == 0 {
			ctx.Class("input:malformed-first-token")
		} else if toks[len(toks)-1].Kind == reflex.Punct && toks[len(toks)-1].Raw == ";" {
			ctx.Class("input:malformed-token-after-semicolon")
		}
		if strings.HasSuffix(src, "\\") || strings.HasSuffix(src, "\\x") || strings.HasSuffix(src, "\\0") || strings.HasSuffix(src, "\\u") {
			ctx.Class("input:truncated-escape-at-eof")
		}
	}
}

func c03All(ctx *harness.Ctx, t harness.T, leg, src string) bool {
	c03InputClasses(ctx, src)
	ok := true
	for _, en := range c03Entries {
		cs := &harness.Case{Leg: leg, Entry: en, Input: src}
		ds := oracleC03(ctx, cs)
		c03Classify(ctx, en, src)
		if !ctx.Check(t, cs, ds) {
			ok = false
		}
	}
	return ok
}

const lexAlphabet = "abrex019.'\"`\\\n -/*#<>=@;"

// enumStrings calls f for every string of length <= maxLen over alphabet whose
// enumeration index falls in this shard's residue class.
func enumStrings(alphabet string, maxLen int, shard, of int, f func(s string) bool) (n int64) {
	buf := make([]byte, 0, maxLen)
	var idx int64
	var rec func(depth int) bool
	rec = func(depth int) bool {
		if idx%int64(of) == int64(shard) {
			n++
			if !f(string(buf)) {
				return false
			}
		}
		idx++
		if depth == maxLen {
			return true
		}
		for i := 0; i < len(alphabet); i++ {
			buf = append(buf, alphabet[i])
			if !rec(depth + 1) {
				return false
			}
			buf = buf[:len(buf)-1]
		}
		return true
	}
	rec(0)
	return n
}

func runC03(ctx *harness.Ctx) {
	// (c) bounded-exhaustive short strings through every entry point
	maxLen := ctx.Pick(4, 5)
	ctx.Leg("exhaustive-short", func() {
		enumStrings(lexAlphabet, maxLen, ctx.Shard, ctx.Of, func(s string) bool {
			c03All(ctx, nil, "exhaustive-short", s)
			return ctx.ViolationCount() < 8
		})
		ctx.Exhaustive(fmt.Sprintf("all strings of length <=%d over the 24-symbol lexical alphabet x 11 entry points", maxLen), ctx.ViolationCount() == 0)
	})
	// hostile fragments alone, doubled, after ';' — deterministic
	ctx.Leg("hostile-fixed", func() {
		if ctx.Shard != 0 {
			return
		}
		for _, h := range mutate.Hostile {
			for _, src := range []string{h, h + " " + h, "SELECT 1; " + h, "SELECT 1;" + h, h + "; SELECT 1", "(" + h, "SELECT " + h, "SELECT 1 + " + h,
				"CAST(1 AS " + h, "ARRAY<" + h, "SELECT * FROM " + h, "CREATE TABLE t (" + h, "INSERT INTO t (a) VALUES (" + h, "@{a=" + h} {
				c03All(ctx, nil, "hostile-fixed", src)
			}
		}
	})
	ctx.Leg("error-sites", func() {
		for i, src := range errorSiteVariants() {
			if i%ctx.Of == ctx.Shard {
				c03All(ctx, nil, "error-sites", src)
			}
		}
	})
	ctx.Leg("broken-pairs", func() {
		idx := 0
		for _, f1 := range brokenFragments {
			for _, f2 := range brokenFragments {
				idx++
				if idx%ctx.Of != ctx.Shard {
					continue
				}
				c03All(ctx, nil, "broken-pairs", f1+[]string{"; ", ", ", "\n;\n"}[idx%3]+f2)
			}
		}
	})
	ctx.Rapid("clause-permutations", ctx.Pick(1500, 25000), func(t *rapid.T) {
		src, _ := drawClausePermutation(t)
		if len(src) > 4096 {
			src = src[:4096]
		}
		c03All(ctx, t, "clause-permutations", src)
	})
	// (a) byte soups
	ctx.Rapid("soup", ctx.Pick(3000, 40000), func(t *rapid.T) {
		src := mutate.Soup(t, 24)
		ctx.Sample(map[string]any{"leg": "soup", "input": q(src)})
		c03All(ctx, t, "soup", src)
	})
	// (b) mutants of valid sentences
	ctx.Rapid("mutant", ctx.Pick(3000, 40000), func(t *rapid.T) {
		base, _ := drawSentence(t)
		var src string
		switch rapid.IntRange(0, 3).Draw(t, "mutation") {
		case 0:
			src = mutate.Tokens(t, base, 3)
		case 1:
			src = mutate.Truncate(t, base)
		case 2:
			src = mutate.Inject(t, base)
		default:
			src = mutate.Inject(t, mutate.Tokens(t, base, 2))
		}
		if len(src) > 4096 {
			src = src[:4096]
		}
		ctx.Sample(map[string]any{"leg": "mutant", "input": q(src)})
		c03All(ctx, t, "mutant", src)
	})
	// valid sentences, unmutated (rare statement families, unusual literal spellings, very long lists)
	ctx.Rapid("valid", ctx.Pick(3000, 40000), func(t *rapid.T) {
		var src string
		switch rapid.IntRange(0, 9).Draw(t, "kind") {
		case 0:
			src = drawGenLong(t, "", 2).Text
		case 1, 2:
			src = drawGenRelaxed(t, "", drawDepth(t)).Text
		default:
			src = drawGen(t, "", drawDepth(t)).Text
		}
		c03All(ctx, t, "valid", src)
	})
	// inputs with many lines (64, 100, 128, 256, 1000, 1024, 4096 ... lines), with an error at offset 0, at a line start or at the end
	ctx.Rapid("many-lines", ctx.Pick(100, 1500), func(t *rapid.T) {
		src, where := drawManyLines(t)
		ctx.Class("many-lines:error-" + where)
		c03All(ctx, t, "many-lines", src)
	})
	// (d) nesting probes
	ctx.Rapid("nesting", ctx.Pick(60, 400), func(t *rapid.T) {
		src := mutate.Nesting(t, ctx.Pick(600, 2000))
		if len(src) > 4096*4 {
			src = src[:4096*4]
		}
		c03All(ctx, t, "nesting", src)
	})
}
