package props

import (
	"fmt"
	"reflect"
	"sort"
	"strconv"
	"strings"

	"github.com/cloudspannerecosystem/memefish/ast"
	"github.com/cloudspannerecosystem/memefish/token"
	"pgregory.net/rapid"

	"verif/internal/astx"
	"verif/internal/gen"
	"verif/internal/harness"
	"verif/internal/mutate"
	"verif/internal/reflex"
)

// C01 — parse -> unparse -> parse is stable.
// C02 — unparse is lossless (token sequence against the generator's canonical form).
// C16 — whitespace, comments and keyword case never change the AST.

func init() {
	harness.Register(&harness.Property{
		ID: "C01", Run: runC01, Oracle: oracleC01, Minimize: true,
		Rule: "cases: rendered generator sentences of every kind (and ';'-lists of them), corpus files, and token-level mutants of both that the entry point still accepts; every entry point that fits the sentence kind. " +
			"Oracle: s1 = SQL(parse(x)) is accepted by the same entry point, the two ASTs are equal up to position values (presence included), SQL() of the second AST is byte-identical to s1. " +
			"A failure is localised to the innermost sub-node (expression / type / query / statement) whose own round trip fails. Non-trivial = accepted input whose AST has >=5 nodes; distinct by (entry, position-free AST hash).",
		Assumptions: []string{"inputs the entry point rejects are outside the property's precondition (their rate is reported as class 'not-accepted')"},
	})
	harness.Register(&harness.Property{
		ID: "C02", Run: runC02, Oracle: oracleC02,
		Rule: "cases: rendered generator sentences only (the expected token sequence C comes from the generator, never from the parser or SQL()). Oracle: SQL() of the parse, lexed with memefish.Lexer and normalised " +
			"(keywords by kind, pseudo keywords case-insensitively, identifiers by name, literals by decoded value, numbers by spelling, '>>' as '>' '>'), must equal C exactly; C differs from the written lexemes only by the documented canonicalisations. " +
			"Differences are found with an LCS diff and each dropped / added / replaced run is its own signature. Non-trivial = sentence with >=1 optional clause present or a list of >=2; distinct by hash of C.",
		Assumptions: []string{"sentences the parser rejects are C08's business and are skipped (counted)"},
	})
	harness.Register(&harness.Property{
		ID: "C16", Run: runC16, Oracle: oracleC16,
		Rule: "cases: accepted rendered generator sentences re-spelled from the generator's own lexeme list (new whitespace-delimited gaps, comments of all four kinds between tokens, new letter case for reserved and pseudo keywords), " +
			"and corpus files re-spelled from their reference-lexer token stream (trivia in non-empty gaps and reserved-keyword case only); identifiers, literals and numbers keep their spelling. " +
			"Oracle: the re-spelling is accepted by the same entry point and equal to the original tree up to positions. Non-trivial = re-spelling that changes >=1 keyword's case and inserts >=1 comment; distinct by hash of the re-spelled text.",
	})
}

// ---------------------------------------------------------------- C01

// subEntry returns the entry point able to parse node n on its own, and a function extracting the comparable root.
func subEntry(n ast.Node) (*Entry, func(ast.Node) ast.Node) {
	id := func(x ast.Node) ast.Node { return x }
	switch n.(type) {
	case ast.Expr:
		return entryByName["ParseExpr"], id
	case ast.Type:
		return entryByName["ParseType"], id
	case ast.QueryExpr:
		return entryByName["ParseQuery"], func(x ast.Node) ast.Node {
			if qs, ok := x.(*ast.QueryStatement); ok && qs.Hint == nil {
				return qs.Query
			}
			return x
		}
	case ast.Statement:
		return entryByName["ParseStatement"], id
	}
	return nil, nil
}

// roundTrip checks one node against one entry; it returns "" or (kind, detail).
func roundTrip(e *Entry, extract func(ast.Node) ast.Node, n ast.Node) (kind, detail string) {
	var s1 string
	if p := callGuard(func() { s1 = n.SQL() }); p != nil {
		return "", "" // C04
	}
	o := e.Guarded(s1)
	if o.Panicked {
		return "", ""
	}
	if o.Err != nil {
		return "reparse-error " + astx.TypeName(n) + strings.TrimPrefix(rejectSig("x", s1, o.Err), "C08 reject"), fmt.Sprintf("SQL() = %s is rejected: %v", q(trunc(s1, 200)), o.Err)
	}
	n2 := extract(o.Nodes[0])
	if d := astx.Equal(n, n2); d != "" {
		return "ast-differs " + astx.OwnerSig(n, d), fmt.Sprintf("SQL() = %s parses to a different tree: %s", q(trunc(s1, 200)), d)
	}
	var s2 string
	if p := callGuard(func() { s2 = n2.SQL() }); p != nil {
		return "", ""
	}
	if s2 != s1 {
		return "sql-not-fixed-point " + astx.TypeName(n), fmt.Sprintf("first unparse %s, second unparse %s", q(trunc(s1, 200)), q(trunc(s2, 200)))
	}
	return "", ""
}

func oracleC01(ctx *harness.Ctx, cs *harness.Case) (ds []harness.Discrepancy) {
	add := func(sig, msg string) {
		ds = append(ds, harness.Discrepancy{Sig: sig, Msg: msg + " entry=" + cs.Entry + " input=" + q(trunc(cs.Input, 300))})
	}
	e := entryByName[cs.Entry]
	if e == nil {
		return
	}
	o := e.Guarded(cs.Input)
	if o.Panicked || o.Err != nil {
		return
	}
	for _, root := range o.Nodes {
		if isNilNode(root) {
			continue
		}
		se, ex := subEntry(root)
		if e.Kind == "ddl" || e.Kind == "dml" {
			se, ex = entryByName[map[string]string{"ddl": "ParseDDL", "dml": "ParseDML"}[e.Kind]], func(x ast.Node) ast.Node { return x }
		}
		if e.Name == "ParseQuery" {
			se, ex = e, func(x ast.Node) ast.Node { return x }
		}
		if se == nil {
			continue
		}
		kind, detail := roundTrip(se, ex, root)
		if kind == "" {
			continue
		}
		// root cause "an identifier spelled like a pseudo keyword loses its back quotes": peel it off. All such identifiers are
		// renamed; if that changes (or removes) the failure, the ones that matter are found by restoring them one at a time and
		// reported as NAME@role (role: expr / type / Owner.Field), so the same defect in a new syntactic role is a new signature.
		// The analysis continues on the renamed tree.
		outer := map[ast.Node]astx.At{}
		for _, a := range astx.All(root) {
			outer[a.Node] = a
		}
		if culprits, k2, d2, involved := pseudoCulprits(root, func() (string, string) { return roundTrip(se, ex, root) }, kind, outer); involved {
			for _, c := range culprits {
				add("C01 pseudo-keyword-identifier-loses-quotes "+c, fmt.Sprintf("%s: %s", astx.TypeName(root), detail))
			}
			kind, detail = k2, d2
			if kind == "" {
				continue
			}
		}
		// localise: innermost node with an entry point whose own round trip fails
		nodes := astx.All(root)
		blamed := false
		for i := len(nodes) - 1; i > 0; i-- {
			n := nodes[i].Node
			ne, nx := subEntry(n)
			if ne == nil {
				continue
			}
			if _, isStmt := n.(ast.Statement); isStmt {
				continue
			}
			if pth, ok := n.(*ast.Path); ok && len(pth.Idents) == 1 {
				continue // a single-identifier Path legitimately parses to an Ident on its own
			}
			if nt, ok := n.(*ast.NamedType); ok && len(nt.Path) > 0 && pseudoKeywordSet[strings.ToUpper(nt.Path[0].Name)] {
				continue // a named type spelled like a builtin type legitimately parses to a simple type on its own (as in C06a)
			}
			k2, d2 := roundTrip(ne, nx, n)
			if k2 == "" {
				continue
			}
			// the sub-node's own failure may again be the pseudo-keyword cause
			if culprits, k3, d3, involved := pseudoCulprits(n, func() (string, string) { return roundTrip(ne, nx, n) }, k2, outer); involved {
				for _, c := range culprits {
					add("C01 pseudo-keyword-identifier-loses-quotes "+c, fmt.Sprintf("%s at %s: %s", astx.TypeName(n), nodes[i].Path, d2))
				}
				blamed = true
				if k3 == "" {
					continue
				}
				k2, d2 = k3, d3
			}
			add(fmt.Sprintf("C01 %s", k2), fmt.Sprintf("%s at %s: %s", astx.TypeName(n), nodes[i].Path, d2))
			blamed = true
			break
		}
		if !blamed {
			add(fmt.Sprintf("C01 %s", kind), fmt.Sprintf("%s: %s", astx.TypeName(root), detail))
		}
	}
	return
}

// pseudoKeywordSet: spellings the grammar treats as keywords although they lex as identifiers.
var pseudoKeywordSet = func() map[string]bool {
	m := map[string]bool{}
	for _, w := range strings.Fields(`INSERT UPDATE DELETE ALTER DROP RENAME GRANT REVOKE ANALYZE CALL VALUE REPLACE OFFSET TABLE MODEL BERNOULLI RESERVOIR PERCENT
SAFE_CAST REPLACE_FIELDS DATE TIMESTAMP NUMERIC JSON COUNT SEQUENCE MIN MAX TIME ZONE OFFSET ORDINAL SAFE_OFFSET SAFE_ORDINAL BOOL INT64 FLOAT32 FLOAT64 STRING BYTES TOKENLIST
SCHEMA DATABASE LOCALITY PLACEMENT BUNDLE INDEX UNIQUE NULL_FILTERED VECTOR SEARCH ROLE CHANGE STREAM VIEW PROPERTY GRAPH STATISTICS OPTIONS CONSTRAINT FOREIGN KEY CHECK SYNONYM PRIMARY
SQL SECURITY INVOKER DEFINER GENERATED IDENTITY AUTO_INCREMENT HIDDEN STORED REFERENCES ENFORCED INTERLEAVE PARENT ROW DELETION POLICY OLDER_THAN DAY CASCADE ACTION STORING ADD COLUMN
SKIP RESTART COUNTER START BIT_REVERSED_POSITIVE EXECUTE FUNCTION NODE TABLES EDGE LABEL PROPERTIES ARE COLUMNS SOURCE DESTINATION INPUT OUTPUT REMOTE VALUES RETURN`) {
		m[w] = true
	}
	return m
}()

var exprIface = reflect.TypeOf((*ast.Expr)(nil)).Elem()

// identRole names the syntactic role of an identifier: "expr" when it stands (alone or as the head of a path) where an
// expression is expected, "type" inside a named type, otherwise the owning struct field.
func identRole(a astx.At, byNode, outer map[ast.Node]astx.At) string {
	cur := a
	for hop := 0; hop < 3; hop++ {
		field := lastStep(cur.Path)
		name := field
		if k := strings.IndexByte(name, '['); k >= 0 {
			name = name[:k]
		}
		if cur.Parent == nil {
			return "expr" // the identifier is itself the (sub-)tree under analysis: an expression
		}
		switch p := cur.Parent.(type) {
		case *ast.NamedType:
			switch {
			case len(p.Path) == 1:
				// a one-part type name: the role is the place where the type stands (SELECT AS <type>, CAST target, ARRAY element ...)
				// (named in the whole tree: the sub-tree under analysis may be the type itself)
				at := byNode[p]
				if o, ok := outer[p]; ok {
					at = o
				}
				if gp := at.Parent; gp != nil {
					f := lastStep(at.Path)
					if k := strings.IndexByte(f, '['); k >= 0 {
						f = f[:k]
					}
					return "type:" + astx.TypeName(gp) + "." + f
				}
				return "type"
			case strings.HasSuffix(field, "[0]"):
				return "type-path-head" // `bool`.x : a multi-part type name whose first part is spelled like a builtin type
			}
			return "path-tail"
		case *ast.Path:
			if !strings.HasSuffix(field, "[0]") {
				return "path-tail"
			}
			cur = byNode[p]
			continue
		}
		pt := reflect.TypeOf(cur.Parent).Elem()
		if f, ok := pt.FieldByName(name); ok {
			ft := f.Type
			if ft.Kind() == reflect.Slice {
				ft = ft.Elem()
			}
			if ft == exprIface {
				return "expr"
			}
			if ft.Kind() == reflect.Interface {
				return "expr:" + ft.Name()
			}
		}
		return astx.TypeName(cur.Parent) + "." + name
	}
	return "?"
}

// pseudoCulprits renames every pseudo-keyword-spelled identifier of the tree. involved reports whether that changes the outcome
// of the round trip (k2, d2 is the new outcome; the tree stays renamed). The culprits are the identifiers whose original
// spelling alone brings a failure back, as NAME@role.
func pseudoCulprits(root ast.Node, trip func() (string, string), kind string, outer map[ast.Node]astx.At) (culprits []string, k2, d2 string, involved bool) {
	all := astx.All(root)
	byNode := map[ast.Node]astx.At{}
	var ids []astx.At
	for _, a := range all {
		byNode[a.Node] = a
		if id, ok := a.Node.(*ast.Ident); ok && pseudoKeywordSet[strings.ToUpper(id.Name)] {
			ids = append(ids, a)
		}
	}
	if len(ids) == 0 {
		return nil, kind, "", false
	}
	orig := make([]string, len(ids))
	for i, a := range ids {
		id := a.Node.(*ast.Ident)
		orig[i] = id.Name
		id.Name = "q_" + id.Name
	}
	k2, d2 = trip()
	if k2 == kind {
		for i, a := range ids {
			a.Node.(*ast.Ident).Name = orig[i]
		}
		return nil, kind, "", false
	}
	seen := map[string]bool{}
	for i, a := range ids {
		id := a.Node.(*ast.Ident)
		id.Name = orig[i]
		if k, _ := trip(); k != k2 {
			key := strings.ToUpper(orig[i]) + "@" + identRole(a, byNode, outer)
			if !seen[key] {
				seen[key] = true
				culprits = append(culprits, key)
			}
		}
		id.Name = "q_" + orig[i]
	}
	if len(culprits) == 0 {
		culprits = []string{"(combination)"}
	}
	return culprits, k2, d2, true
}

// renamePseudoIdents renames (in place) every identifier spelled like a pseudo keyword; it returns how many.
func renamePseudoIdents(root ast.Node) int {
	n := 0
	for _, a := range astx.All(root) {
		if id, ok := a.Node.(*ast.Ident); ok && pseudoKeywordSet[strings.ToUpper(id.Name)] {
			id.Name = "q_" + id.Name
			n++
		}
	}
	return n
}

// nodeCtx names a node type with the types of its direct children (the shape that matters for printing).
func nodeCtx(n ast.Node) string {
	return astx.TypeName(n)
}

func c01One(ctx *harness.Ctx, t harness.T, leg string, e *Entry, src string) {
	cs := &harness.Case{Leg: leg, Entry: e.Name, Input: src}
	ctx.Eval(1)
	o := e.Guarded(src)
	if o.Panicked || o.Err != nil {
		ctx.Class("not-accepted:" + leg)
		return
	}
	ctx.Class("accepted:" + leg)
	n := 0
	var dump strings.Builder
	for _, r := range o.Nodes {
		if !isNilNode(r) {
			n += len(astx.All(r))
			dump.WriteString(astx.Dump(r, false))
		}
	}
	if n >= 5 {
		ctx.NonTrivial(harness.Hash(e.Name, dump.String()))
	}
	ctx.Check(t, cs, oracleC01(ctx, cs))
}

func runC01(ctx *harness.Ctx) {
	useAvoid(ctx)
	ctx.Leg("corpus", func() {
		for i, c := range corpusGood() {
			if i%ctx.Of != ctx.Shard {
				continue
			}
			for _, e := range entriesForKind(c.Kind) {
				c01One(ctx, nil, "corpus", e, c.Src)
			}
		}
	})
	ctx.Rapid("generated", ctx.Pick(8000, 90000), func(t *rapid.T) {
		c := drawGen(t, "", drawDepth(t))
		tagHistogram(ctx, c.S.Tags)
		ctx.Sample(map[string]any{"leg": "generated", "kind": c.S.Kind, "input": q(trunc(c.Text, 300))})
		es := entriesForKind(c.S.Kind)
		e := es[rapid.IntRange(0, len(es)-1).Draw(t, "entry")]
		c01One(ctx, t, "generated", e, c.Text)
	})
	ctx.Rapid("generated-relaxed", ctx.Pick(6000, 50000), func(t *rapid.T) {
		c := drawGenRelaxed(t, "", drawDepth(t))
		es := entriesForKind(c.S.Kind)
		e := es[rapid.IntRange(0, len(es)-1).Draw(t, "entry")]
		c01One(ctx, t, "generated-relaxed", e, c.Text)
	})
	ctx.Rapid("quoted-pseudo-keyword", ctx.Pick(4000, 30000), func(t *rapid.T) {
		c, ok := drawGenQuotedPKW(t, "", rapid.SampledFrom([]int{1, 2, 2}).Draw(t, "depth"))
		if !ok {
			return
		}
		es := entriesForKind(c.S.Kind)
		c01One(ctx, t, "quoted-pseudo-keyword", es[rapid.IntRange(0, len(es)-1).Draw(t, "entry")], c.Text)
	})
	// every pseudo keyword, back-quoted, in drawn identifier positions of a sentence: the systematic enumeration of
	// (NAME, syntactic role) pairs for the root cause "an identifier spelled like a pseudo keyword loses its quotes"
	pkwNames := make([]string, 0, len(pseudoKeywordSet))
	for w := range pseudoKeywordSet {
		pkwNames = append(pkwNames, w)
	}
	sort.Strings(pkwNames)
	ctx.Rapid("pseudo-keyword-sweep", ctx.Pick(15, 250), func(t *rapid.T) {
		c := drawGen(t, "", rapid.SampledFrom([]int{1, 2, 2, 3}).Draw(t, "depth"))
		var idx []int
		for i, p := range c.Pieces {
			if p.Lex.K == gen.ID && !p.Lex.Bare {
				idx = append(idx, i)
			}
		}
		if len(idx) == 0 {
			return
		}
		es := entriesForKind(c.S.Kind)
		e := es[rapid.IntRange(0, len(es)-1).Draw(t, "entry")]
		npos := min(len(idx), ctx.Pick(3, 8))
		for k := 0; k < npos; k++ {
			i := idx[rapid.IntRange(0, len(idx)-1).Draw(t, "position")]
			lower := rapid.Bool().Draw(t, "lower")
			old := c.Pieces[i].Text
			for _, w := range pkwNames {
				if lower {
					w = strings.ToLower(w)
				}
				c.Pieces[i].Text = "`" + w + "`"
				c01One(ctx, t, "pseudo-keyword-sweep", e, gen.Text(c.Pieces, c.Tail))
			}
			c.Pieces[i].Text = old
		}
	})
	ctx.Rapid("generated-long", ctx.Pick(400, 8000), func(t *rapid.T) {
		c := drawGenLong(t, "", 2)
		es := entriesForKind(c.S.Kind)
		e := es[rapid.IntRange(0, len(es)-1).Draw(t, "entry")]
		c01One(ctx, t, "generated-long", e, c.Text)
	})
	// exhaustive size sweep: list / nesting forms at every size 0..300 (the unparsed text can be longer than the input:
	// JOIN -> INNER JOIN ..., so a size threshold in the parser shows as "accepted, but its SQL() is rejected")
	ctx.Leg("size-sweep", func() {
		forSweep(ctx, func(entry, src string, n int) bool {
			c01One(ctx, nil, "size-sweep", entryByName[entry], src)
			return ctx.ViolationCount() < 6
		})
		ctx.Exhaustive(fmt.Sprintf("%d size-sweep templates x every size 0..%d and 2^k-1..2^k+1 up to %d", len(sweepTemplates), ctx.Pick(sweepMax, 1100), ctx.Pick(4096, 16384)), ctx.ViolationCount() == 0)
	})
	ctx.Leg("size-sweep-2d", func() {
		forSweep2(ctx, func(entry, src string, a, b int) bool {
			c01One(ctx, nil, "size-sweep-2d", entryByName[entry], src)
			return ctx.ViolationCount() < 6
		})
		ctx.Exhaustive(fmt.Sprintf("%d two-part templates x %d x %d boundary sizes", len(sweep2Templates), len(sweep2Sizes), len(sweep2Sizes)), ctx.ViolationCount() == 0)
	})
	ctx.Rapid("generated-list", ctx.Pick(1500, 30000), func(t *rapid.T) {
		kind := rapid.SampledFrom([]string{"query", "ddl", "dml"}).Draw(t, "kind")
		n := rapid.IntRange(2, 3).Draw(t, "n")
		var parts []string
		for i := 0; i < n; i++ {
			parts = append(parts, drawGen(t, kind, 2).Text)
		}
		src := strings.Join(parts, "\n;")
		le := map[string]string{"query": "ParseStatements", "ddl": "ParseDDLs", "dml": "ParseDMLs"}[kind]
		if rapid.Bool().Draw(t, "stmts") {
			le = "ParseStatements"
		}
		c01One(ctx, t, "generated-list", entryByName[le], src)
	})
	ctx.Rapid("clause-permutations", ctx.Pick(2500, 50000), func(t *rapid.T) {
		src, kind := drawClausePermutation(t)
		es := entriesForKind(kind)
		c01One(ctx, t, "clause-permutations", es[rapid.IntRange(0, len(es)-1).Draw(t, "entry")], src)
	})
	ctx.Rapid("mutant", ctx.Pick(8000, 90000), func(t *rapid.T) {
		s := drawValid(t)
		src := mutate.Tokens(t, s.Src, 2)
		es := entriesForKind(s.Kind)
		e := es[rapid.IntRange(0, len(es)-1).Draw(t, "entry")]
		c01One(ctx, t, "mutant", e, src)
	})
}

// ---------------------------------------------------------------- C02

type actTok struct {
	Kind token.TokenKind
	Raw  string
	Val  string
}

func (a actTok) class() string {
	switch a.Kind {
	case token.TokenIdent:
		return "id/pkw:" + strings.ToUpper(a.Raw)
	case token.TokenInt:
		return "int"
	case token.TokenFloat:
		return "float"
	case token.TokenString:
		return "str"
	case token.TokenBytes:
		return "bytes"
	case token.TokenParam:
		return "param"
	}
	if _, ok := token.KeywordsMap[a.Kind]; ok {
		return "kw:" + string(a.Kind)
	}
	return "'" + string(a.Kind) + "'"
}

func lexMatches(e gen.Lex, a actTok) bool {
	switch e.K {
	case gen.KW:
		return string(a.Kind) == e.V
	case gen.PKW:
		return a.Kind == token.TokenIdent && strings.EqualFold(a.Raw, e.V)
	case gen.ID:
		return a.Kind == token.TokenIdent && a.Val == e.V
	case gen.INT:
		return a.Kind == token.TokenInt && a.Raw == e.V
	case gen.FLOAT:
		return a.Kind == token.TokenFloat && a.Raw == e.V
	case gen.STR:
		return a.Kind == token.TokenString && a.Val == e.V
	case gen.BYTES:
		return a.Kind == token.TokenBytes && a.Val == e.V
	case gen.PARAM:
		return a.Kind == token.TokenParam && a.Val == e.V
	case gen.PUNCT:
		return string(a.Kind) == e.V
	}
	return false
}

func normExpected(c []gen.Lex) []gen.Lex {
	var out []gen.Lex
	for _, l := range c {
		if l.K == gen.PUNCT && l.V == ">>" {
			out = append(out, gen.Lex{K: gen.PUNCT, V: ">"}, gen.Lex{K: gen.PUNCT, V: ">"})
			continue
		}
		out = append(out, l)
	}
	return out
}

func normActual(toks []token.Token) []actTok {
	var out []actTok
	for _, t := range toks {
		switch t.Kind {
		case token.TokenEOF:
		case ">>":
			out = append(out, actTok{Kind: ">", Raw: ">"}, actTok{Kind: ">", Raw: ">"})
		case "<>":
			out = append(out, actTok{Kind: "<", Raw: "<"}, actTok{Kind: ">", Raw: ">"})
		default:
			out = append(out, actTok{Kind: t.Kind, Raw: t.Raw, Val: t.AsString})
		}
	}
	return out
}

// encodeLex / decodeLex store a lexeme list in a replay file without losing invalid UTF-8.
func encodeLex(ls []gen.Lex) string {
	var b strings.Builder
	for _, l := range ls {
		fmt.Fprintf(&b, "%d %s\n", int(l.K), strconv.Quote(l.V))
	}
	return b.String()
}

func decodeLex(s string) []gen.Lex {
	var out []gen.Lex
	for _, ln := range strings.Split(s, "\n") {
		if ln == "" {
			continue
		}
		i := strings.IndexByte(ln, ' ')
		if i < 0 {
			return nil
		}
		k, err := strconv.Atoi(ln[:i])
		if err != nil {
			return nil
		}
		v, err := strconv.Unquote(ln[i+1:])
		if err != nil {
			return nil
		}
		out = append(out, gen.Lex{K: gen.LK(k), V: v})
	}
	return out
}

type hunk struct {
	dropped []gen.Lex
	added   []actTok
}

// diffTokens aligns expected and actual with an LCS and returns the differing runs.
func diffTokens(exp []gen.Lex, act []actTok) []hunk {
	n, m := len(exp), len(act)
	lcs := make([][]int32, n+1)
	for i := range lcs {
		lcs[i] = make([]int32, m+1)
	}
	for i := n - 1; i >= 0; i-- {
		for j := m - 1; j >= 0; j-- {
			if lexMatches(exp[i], act[j]) {
				lcs[i][j] = lcs[i+1][j+1] + 1
			} else if lcs[i+1][j] >= lcs[i][j+1] {
				lcs[i][j] = lcs[i+1][j]
			} else {
				lcs[i][j] = lcs[i][j+1]
			}
		}
	}
	var hs []hunk
	var cur hunk
	flush := func() {
		if len(cur.dropped) > 0 || len(cur.added) > 0 {
			hs = append(hs, cur)
			cur = hunk{}
		}
	}
	i, j := 0, 0
	for i < n && j < m {
		switch {
		case lexMatches(exp[i], act[j]):
			flush()
			i++
			j++
		case lcs[i+1][j] >= lcs[i][j+1]:
			cur.dropped = append(cur.dropped, exp[i])
			i++
		default:
			cur.added = append(cur.added, act[j])
			j++
		}
	}
	for ; i < n; i++ {
		cur.dropped = append(cur.dropped, exp[i])
	}
	for ; j < m; j++ {
		cur.added = append(cur.added, act[j])
	}
	flush()
	return hs
}

func classesOfLex(ls []gen.Lex, max int) string {
	var p []string
	for i, l := range ls {
		if i >= max {
			break
		}
		p = append(p, l.Class())
	}
	return strings.Join(p, " ")
}

func classesOfAct(as []actTok, max int) string {
	var p []string
	for i, a := range as {
		if i >= max {
			break
		}
		p = append(p, a.class())
	}
	return strings.Join(p, " ")
}

func oracleC02(ctx *harness.Ctx, cs *harness.Case) (ds []harness.Discrepancy) {
	add := func(sig, msg string) {
		ds = append(ds, harness.Discrepancy{Sig: sig, Msg: msg + " input=" + q(trunc(cs.Input, 300))})
	}
	canon := decodeLex(cs.Aux["c"])
	if canon == nil {
		return
	}
	e := entryByName[cs.Entry]
	if e == nil {
		return
	}
	o := e.Guarded(cs.Input)
	if o.Panicked || o.Err != nil {
		return
	}
	var sql string
	if p := callGuard(func() { sql = o.Nodes[0].SQL() }); p != nil {
		return
	}
	toks, err := mfLex(sql)
	if err != nil {
		add("C02 unparse-does-not-lex", fmt.Sprintf("SQL() = %s: %v", q(trunc(sql, 200)), err))
		return
	}
	// cross-check with the reference lexer: same number of significant tokens
	if ref, rerr := reflex.Lex(sql); rerr == nil && len(ref) != len(toks) {
		add("C02 lexers-disagree-on-unparse", fmt.Sprintf("memefish %d tokens, reference %d on %s", len(toks), len(ref), q(trunc(sql, 200))))
	}
	for _, h := range diffTokens(normExpected(canon), normActual(toks)) {
		switch {
		case len(h.dropped) > 0 && len(h.added) > 0:
			add(fmt.Sprintf("C02 replaced %s by %s", classesOfLex(h.dropped, 2), classesOfAct(h.added, 2)),
				fmt.Sprintf("the user wrote [%s], SQL() has [%s]; SQL() = %s", classesOfLex(h.dropped, 8), classesOfAct(h.added, 8), q(trunc(sql, 300))))
		case len(h.dropped) > 0:
			add(fmt.Sprintf("C02 dropped %s", classesOfLex(h.dropped, 2)),
				fmt.Sprintf("[%s] disappeared from the unparsed text %s", classesOfLex(h.dropped, 8), q(trunc(sql, 300))))
		default:
			add(fmt.Sprintf("C02 added %s", classesOfAct(h.added, 2)),
				fmt.Sprintf("[%s] appeared in the unparsed text %s", classesOfAct(h.added, 8), q(trunc(sql, 300))))
		}
	}
	return
}

func runC02(ctx *harness.Ctx) {
	useAvoid(ctx)
	ctx.Rapid("generated", ctx.Pick(15000, 110000), func(t *rapid.T) {
		var c GenCase
		if rapid.IntRange(0, 29).Draw(t, "long") == 0 {
			c = drawGenLong(t, "", 2)
		} else {
			c = drawGen(t, "", drawDepth(t))
		}
		tagHistogram(ctx, c.S.Tags)
		e := specificEntry(c.S.Kind)
		cs := &harness.Case{Leg: "generated", Entry: e.Name, Input: c.Text, Aux: map[string]string{"c": encodeLex(c.S.C), "kind": c.S.Kind}}
		ctx.Eval(1)
		o := e.Guarded(c.Text)
		if o.Panicked || o.Err != nil {
			ctx.Class("rejected-by-parser(C08)")
			return
		}
		ctx.Class("kind:" + c.S.Kind)
		if c08NonTrivial(c.S) {
			ctx.NonTrivial(harness.Hash(gen.Plain(c.S.C)))
		}
		ctx.Sample(map[string]any{"kind": c.S.Kind, "input": q(trunc(c.Text, 300)), "canonical": gen.Plain(c.S.C)})
		ctx.Check(t, cs, oracleC02(ctx, cs))
	})
}

// ---------------------------------------------------------------- C16

func oracleC16(ctx *harness.Ctx, cs *harness.Case) (ds []harness.Discrepancy) {
	add := func(sig, msg string) {
		ds = append(ds, harness.Discrepancy{Sig: sig, Msg: msg + " original=" + q(trunc(cs.Input, 200)) + " respelled=" + q(trunc(cs.Aux["respelled"], 200))})
	}
	e := entryByName[cs.Entry]
	if e == nil {
		return
	}
	o := e.Guarded(cs.Input)
	if o.Panicked || o.Err != nil {
		return
	}
	o2 := e.Guarded(cs.Aux["respelled"])
	if o2.Panicked {
		return
	}
	if o2.Err != nil {
		add("C16 respelling-rejected"+strings.TrimPrefix(rejectSig("x", cs.Aux["respelled"], o2.Err), "C08 reject"), fmt.Sprintf("the re-spelling is rejected: %v", o2.Err))
		return
	}
	if len(o.Nodes) != len(o2.Nodes) {
		add("C16 statement-count", "different number of statements")
		return
	}
	for i := range o.Nodes {
		if d := astx.Equal(o.Nodes[i], o2.Nodes[i]); d != "" {
			add("C16 ast-differs "+astx.DiffSig(d), "the re-spelling parses to a different tree: "+d)
			return
		}
	}
	return
}

// respellCorpus re-spells a corpus text from its reference tokens: new trivia in non-empty gaps, reserved keyword case.
func respellCorpus(t *rapid.T, src string) (string, int, int, bool) {
	toks, err := reflex.Lex(src)
	if err != nil {
		return "", 0, 0, false
	}
	var b strings.Builder
	cased, comments := 0, 0
	for _, tk := range toks {
		gapEmpty := len(tk.Comments) == 0 && tk.Space == ""
		if !gapEmpty {
			g := rapid.SampledFrom([]string{" ", "\n", "\t", "  ", " /* c */ ", "\n-- c\n", " # c\n", " // ;\n ", " /* ' */ ", " /**/", " --\n", " #\n", " /*/*/", " /* * */"}).Draw(t, "gap")
			if strings.ContainsAny(g, "/#-") {
				comments++
			}
			b.WriteString(g)
		}
		switch tk.Kind {
		case reflex.EOF:
		case reflex.Keyword:
			w := tk.Raw
			switch rapid.IntRange(0, 3).Draw(t, "case") {
			case 1:
				w = strings.ToLower(w)
			case 2:
				w = strings.ToUpper(w)
			case 3:
				w = strings.ToUpper(w[:1]) + strings.ToLower(w[1:])
			}
			if w != tk.Raw {
				cased++
			}
			b.WriteString(w)
		default:
			b.WriteString(tk.Raw)
		}
	}
	// the gap before <eof>: a line comment that runs to the end of the input (bodies down to the empty one)
	if tail := rapid.SampledFrom([]string{"", "", "", " #", " --", " //", "\n# c", " -- c ;", " /**/", "\n--"}).Draw(t, "tail"); tail != "" {
		b.WriteString(tail)
		comments++
	}
	return b.String(), cased, comments, true
}

func runC16(ctx *harness.Ctx) {
	useAvoid(ctx)
	ctx.Rapid("generated", ctx.Pick(8000, 150000), func(t *rapid.T) {
		c := drawGen(t, "", drawDepth(t))
		e := specificEntry(c.S.Kind)
		o := e.Guarded(c.Text)
		ctx.Eval(1)
		if o.Panicked || o.Err != nil {
			ctx.Class("original-not-accepted")
			return
		}
		for k := 0; k < 3; k++ {
			ps := append([]gen.Piece(nil), c.Pieces...)
			cased := gen.Recase(t, ps)
			tail := gen.Respace(t, ps, gen.RenderOpts{})
			re := gen.Text(ps, tail) + gen.EOFComment(t)
			if fp := farPrefix(t, 150, false); fp != "" {
				re = fp + re // a very large leading gap is a re-spelling too
				ctx.Class("far-offset")
			}
			comments := strings.Count(re, "/*") + strings.Count(re, "--") + strings.Count(re, "#") + strings.Count(re, "//")
			cs := &harness.Case{Leg: "generated", Entry: e.Name, Input: c.Text, Aux: map[string]string{"respelled": re}}
			ctx.Eval(1)
			if cased > 0 && comments > 0 {
				ctx.NonTrivial(harness.Hash(re))
			}
			if k == 0 {
				ctx.Sample(map[string]any{"original": q(trunc(c.Text, 200)), "respelled": q(trunc(re, 200))})
			}
			ctx.Check(t, cs, oracleC16(ctx, cs))
		}
	})
	ctx.Rapid("corpus", ctx.Pick(4000, 60000), func(t *rapid.T) {
		good := corpusGood()
		c := good[rapid.IntRange(0, len(good)-1).Draw(t, "file")]
		re, cased, comments, ok := respellCorpus(t, c.Src)
		if !ok {
			return
		}
		cs := &harness.Case{Leg: "corpus", Entry: c.Entry, Input: c.Src, Aux: map[string]string{"respelled": re}}
		ctx.Eval(1)
		if cased > 0 && comments > 0 {
			ctx.NonTrivial(harness.Hash(re))
		}
		ctx.Check(t, cs, oracleC16(ctx, cs))
	})
}
