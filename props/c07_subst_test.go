package props

import (
	"fmt"
	"reflect"
	"strings"

	"github.com/cloudspannerecosystem/memefish"
	"github.com/cloudspannerecosystem/memefish/ast"

	"verif/internal/astx"
	em "verif/internal/exprmodel"
	"verif/internal/harness"
)

// C07, leg primary-substitution: grouping must not depend on WHICH primary expression stands at a leaf.
//
// The enumerated trees use seven atom spellings. The operator table, however, says "operands are expressions": any
// self-delimiting primary (CASE ... END, CAST(...), WITH(...), a typed literal, an array, a subquery, a call with OVER ...)
// has to behave like the identifier it replaces. Metamorphic relation, decided on ASTs: parse the minimal text of a model tree
// with the placeholder identifier zq at one leaf, parse the same text with zq replaced by the primary P, parse P alone;
// the second tree must equal the first one with the Ident zq replaced by P's tree (position-insensitive comparison).

const c07Placeholder = "zq"

// c07Primaries: documented primary expressions; each starts and ends with its own delimiter or keyword, so no operator of the
// table can reach into it or out of it. Not in the list, on purpose: numeric literals (memefish folds a directly preceding sign into
// the literal, which the tree legs model) and identifiers (zq.f is a Path, which the tree legs model).
var c07Primaries = []string{
	"WITH(a AS 1, a)", "CASE WHEN a THEN b ELSE c END", "CASE a WHEN 1 THEN b END", "CAST(a AS INT64)", "SAFE_CAST(a AS STRING)",
	"EXTRACT(DAY FROM a)", "IF(a, b, c)", "ARRAY<INT64>[1, 2]", "[1, 2]", "STRUCT(1 AS x, 2)", "STRUCT<x INT64>(1)", "(1, 2)",
	"(SELECT 1)", "ARRAY(SELECT 1)", "EXISTS(SELECT 1)", "COUNT(*)", "f(x) OVER (PARTITION BY y)", "g(DISTINCT x IGNORE NULLS)", "a.b(c)",
	"DATE '2020-01-01'", "TIMESTAMP '2020-01-01 00:00:00'", "NUMERIC '1'", "JSON '{}'", "INTERVAL 1 DAY", "NULL", "TRUE", "'s'", "b'x'", "r\"x\"",
	"@@sys", "NEW T {a: 1}", "NEW T(1 AS a)", "REPLACE_FIELDS(a, 1 AS b)", "x[OFFSET(1)]", "(a)",
}

// substPlaceholder returns root with every expression `zq` replaced by repl (and every path zq.f.g by repl.f.g), and the number of replacements.
func substPlaceholder(root ast.Expr, repl ast.Expr) (ast.Expr, int) {
	n := 0
	exprT := reflect.TypeOf((*ast.Expr)(nil)).Elem()
	var replacement func(x any) ast.Expr
	replacement = func(x any) ast.Expr {
		switch v := x.(type) {
		case *ast.Ident:
			if v != nil && v.Name == c07Placeholder {
				return repl
			}
		case *ast.Path:
			if v != nil && len(v.Idents) > 1 && v.Idents[0].Name == c07Placeholder {
				var e ast.Expr = repl
				for _, id := range v.Idents[1:] {
					e = &ast.SelectorExpr{Expr: e, Ident: id}
				}
				return e
			}
		}
		return nil
	}
	var walk func(v reflect.Value)
	walk = func(v reflect.Value) {
		switch v.Kind() {
		case reflect.Interface:
			if v.IsNil() {
				return
			}
			if r := replacement(v.Interface()); r != nil && v.CanSet() && reflect.TypeOf(r).AssignableTo(v.Type()) && v.Type().Implements(exprT) {
				v.Set(reflect.ValueOf(r))
				n++
				return
			}
			walk(v.Elem())
		case reflect.Ptr:
			if !v.IsNil() {
				walk(v.Elem())
			}
		case reflect.Struct:
			for i := 0; i < v.NumField(); i++ {
				if v.Type().Field(i).IsExported() {
					walk(v.Field(i))
				}
			}
		case reflect.Slice:
			for i := 0; i < v.Len(); i++ {
				walk(v.Index(i))
			}
		}
	}
	if r := replacement(root); r != nil {
		return r, 1
	}
	walk(reflect.ValueOf(&root).Elem())
	return root, n
}

func c07Subst(cs *harness.Case, add func(sig, msg string)) {
	base, prim, src := cs.Aux["base"], cs.Aux["primary"], cs.Input
	parse := func(s string) (e ast.Expr, err error, panicked bool) {
		o := guarded(func() ([]astNode, error) { e, err = memefish.ParseExpr("", s); return nil, nil })
		return e, err, o.Panicked
	}
	e0, err0, p0 := parse(base)
	ep, errp, pp := parse(prim)
	if p0 || pp || err0 != nil || errp != nil {
		return // the base text is the business of the tree legs, the primary alone that of C08
	}
	e1, err1, p1 := parse(src)
	if p1 {
		return // C03
	}
	kind := strings.Fields(strings.NewReplacer("(", " ( ", "<", " < ", "'", " ' ", "\"", " \" ", "[", " [ ").Replace(prim))[0]
	if err1 != nil {
		add("C07 primary-substitution rejected "+kind, fmt.Sprintf("%q is accepted and %q is accepted alone, but %q is rejected: %v", base, prim, src, err1))
		return
	}
	want, n := substPlaceholder(e0, ep)
	if n != 1 {
		return
	}
	if d := astx.Equal(want, e1); d != "" {
		add("C07 primary-substitution grouping "+kind, fmt.Sprintf("%q: the tree is not the tree of %q with %s replaced by the tree of %q: %s", src, base, c07Placeholder, prim, d))
	}
}

// leaves returns the atom leaves of n in left-to-right order.
func c07Leaves(n *em.Node, out []*em.Node) []*em.Node {
	if n.Form == nil {
		return append(out, n)
	}
	for _, k := range n.Kids {
		out = c07Leaves(k, out)
	}
	return out
}

func runC07Subst(ctx *harness.Ctx) {
	ctx.Leg("primary-substitution", func() {
		var idx int64
		for k := 0; k <= 2; k++ {
			em.Enumerate(k, func(n *em.Node) bool {
				leaves := c07Leaves(n, nil)
				for j, lf := range leaves {
					saved := lf.Atom
					lf.Atom = c07Placeholder
					base, _ := em.Print(n, false)
					lf.Atom = saved
					if strings.Count(base, c07Placeholder) != 1 {
						continue
					}
					for pi, prim := range c07Primaries {
						idx++
						if idx%int64(ctx.Of) != int64(ctx.Shard) {
							continue
						}
						src := strings.Replace(base, c07Placeholder, prim, 1)
						cs := &harness.Case{Leg: "primary-substitution", Entry: "ParseExpr", Input: src, Aux: map[string]string{"base": base, "primary": prim}}
						ctx.Eval(3)
						if k >= 1 {
							ctx.NonTrivial(harness.Hash("subst", src))
						}
						if idx%50021 == 1 {
							ctx.Sample(map[string]any{"leg": "primary-substitution", "base": base, "primary": prim, "leaf": j, "text": src})
						}
						ctx.Class(fmt.Sprintf("primary:%d", pi))
						ctx.Check(nil, cs, oracleC07(ctx, cs))
					}
				}
				return ctx.ViolationCount() < 10
			})
		}
		ctx.Exhaustive(fmt.Sprintf("all operator trees with <=2 operator occurrences x every leaf x %d primary expressions", len(c07Primaries)), ctx.ViolationCount() == 0)
	})
}
