#!/bin/sh
# Entry used by MANIFEST commands: ./check.sh <ID> <quick|thorough>  |  ./check.sh <ID> --replay <file>
cd "$(dirname "$0")" || exit 2
export GOFLAGS=-mod=mod GOPROXY=off GOSUMDB=off GOTOOLCHAIN=local
export VERIF_ROOT="$(pwd)"
mkdir -p .build
go build -o .build/vcheck ./cmd/vcheck || { echo "INCONCLUSIVE: driver build failed" >&2; exit 2; }
exec .build/vcheck "$@"
