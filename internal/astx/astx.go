// Package astx holds reflection-only tools over memefish ASTs. Nothing here
// calls ast.Walk, Pos(), End() or SQL(): these helpers are the independent side
// of the oracles that check those functions.
package astx

import (
	"fmt"
	"reflect"
	"sort"
	"strconv"
	"strings"

	"github.com/cloudspannerecosystem/memefish/ast"
	"github.com/cloudspannerecosystem/memefish/token"
)

var (
	nodeIface = reflect.TypeOf((*ast.Node)(nil)).Elem()
	posType   = reflect.TypeOf(token.Pos(0))
)

// IsNodeType reports whether t is a node-typed field type: a pointer to a node
// struct or an interface that includes ast.Node.
func IsNodeType(t reflect.Type) bool {
	switch t.Kind() {
	case reflect.Ptr:
		return t.Elem().Kind() == reflect.Struct && t.Implements(nodeIface)
	case reflect.Interface:
		return t.Implements(nodeIface)
	}
	return false
}

// IsNil reports whether a node value is nil (nil interface or nil pointer inside).
func IsNil(n ast.Node) bool {
	if n == nil {
		return true
	}
	v := reflect.ValueOf(n)
	return v.Kind() == reflect.Ptr && v.IsNil()
}

// Child is one node-typed child reached through an exported field.
type Child struct {
	Node  ast.Node
	Field string
	Index int // -1 when the field is not a slice
}

func (c Child) Step() string {
	if c.Index < 0 {
		return "." + c.Field
	}
	return "." + c.Field + "[" + strconv.Itoa(c.Index) + "]"
}

// Children lists the non-nil node-typed children of n through exported fields
// in declaration order (slices in index order).
func Children(n ast.Node) []Child {
	if IsNil(n) {
		return nil
	}
	v := reflect.ValueOf(n)
	if v.Kind() == reflect.Ptr {
		v = v.Elem()
	}
	if v.Kind() != reflect.Struct {
		return nil
	}
	var out []Child
	t := v.Type()
	for i := 0; i < t.NumField(); i++ {
		f := t.Field(i)
		if !f.IsExported() {
			continue
		}
		fv := v.Field(i)
		switch {
		case IsNodeType(f.Type):
			if fv.IsNil() {
				continue
			}
			c, _ := fv.Interface().(ast.Node)
			if IsNil(c) {
				continue
			}
			out = append(out, Child{Node: c, Field: f.Name, Index: -1})
		case f.Type.Kind() == reflect.Slice && IsNodeType(f.Type.Elem()):
			for j := 0; j < fv.Len(); j++ {
				ev := fv.Index(j)
				if ev.IsNil() {
					// a nil element is still an element as far as traversal goes
					out = append(out, Child{Node: nil, Field: f.Name, Index: j})
					continue
				}
				c, _ := ev.Interface().(ast.Node)
				out = append(out, Child{Node: c, Field: f.Name, Index: j})
			}
		}
	}
	return out
}

// NodeFields lists the names of the node-typed fields of a node struct type
// (single and slice), in declaration order, with a flag for slices.
type FieldInfo struct {
	Name  string
	Slice bool
	Type  reflect.Type
}

func NodeFields(t reflect.Type) []FieldInfo {
	if t.Kind() == reflect.Ptr {
		t = t.Elem()
	}
	var out []FieldInfo
	for i := 0; i < t.NumField(); i++ {
		f := t.Field(i)
		if !f.IsExported() {
			continue
		}
		switch {
		case IsNodeType(f.Type):
			out = append(out, FieldInfo{Name: f.Name, Type: f.Type})
		case f.Type.Kind() == reflect.Slice && IsNodeType(f.Type.Elem()):
			out = append(out, FieldInfo{Name: f.Name, Slice: true, Type: f.Type})
		}
	}
	return out
}

// At is a node with its reflection path from the root.
type At struct {
	Node   ast.Node
	Path   string
	Parent ast.Node
	Depth  int
}

// All lists every non-nil node reachable from root in pre-order, siblings in
// field-declaration order.
func All(root ast.Node) []At {
	var out []At
	var rec func(n, parent ast.Node, path string, depth int)
	rec = func(n, parent ast.Node, path string, depth int) {
		if IsNil(n) {
			return
		}
		out = append(out, At{Node: n, Path: path, Parent: parent, Depth: depth})
		for _, c := range Children(n) {
			rec(c.Node, n, path+c.Step(), depth+1)
		}
	}
	rec(root, nil, "", 0)
	return out
}

// TypeName is the bare struct name of a node ("Select", "BadExpr").
func TypeName(n ast.Node) string {
	if n == nil {
		return "<nil>"
	}
	t := reflect.TypeOf(n)
	if t.Kind() == reflect.Ptr {
		t = t.Elem()
	}
	return t.Name()
}

// IsBad reports whether n is one of the Bad* placeholders (including BadNode).
func IsBad(n ast.Node) bool {
	switch n.(type) {
	case *ast.BadNode, *ast.BadStatement, *ast.BadQueryExpr, *ast.BadExpr, *ast.BadType, *ast.BadDDL, *ast.BadDML:
		return true
	}
	return false
}

// BadNodes lists the *ast.BadNode values in the tree.
func BadNodes(root ast.Node) []*ast.BadNode {
	var out []*ast.BadNode
	for _, a := range All(root) {
		if b, ok := a.Node.(*ast.BadNode); ok {
			out = append(out, b)
		}
	}
	return out
}

// HasBad reports whether any Bad* node is in the tree.
func HasBad(root ast.Node) bool {
	for _, a := range All(root) {
		if IsBad(a.Node) {
			return true
		}
	}
	return false
}

// CountByType tallies node types.
func CountByType(root ast.Node, into map[string]int64) {
	for _, a := range All(root) {
		into[TypeName(a.Node)]++
	}
}

// ---- position-insensitive equality ----

// Equal compares two values deeply. A token.Pos field only has to agree on
// validity (present / absent); nil and empty slices are the same. It returns
// "" when equal, otherwise the path of the first difference with both values.
func Equal(a, b any) string {
	return eq(reflect.ValueOf(a), reflect.ValueOf(b), "", false)
}

// EqualExact is Equal with position values compared exactly.
func EqualExact(a, b any) string {
	return eq(reflect.ValueOf(a), reflect.ValueOf(b), "", true)
}

func eq(a, b reflect.Value, path string, exact bool) string {
	if !a.IsValid() || !b.IsValid() {
		if a.IsValid() == b.IsValid() {
			return ""
		}
		return fmt.Sprintf("%s: one side is nil", pathOr(path))
	}
	if a.Type() != b.Type() {
		return fmt.Sprintf("%s: type %s vs %s", pathOr(path), a.Type(), b.Type())
	}
	switch a.Kind() {
	case reflect.Ptr, reflect.Interface:
		if a.IsNil() || b.IsNil() {
			if a.IsNil() == b.IsNil() {
				return ""
			}
			return fmt.Sprintf("%s: nil vs non-nil (%s / %s)", pathOr(path), short(a), short(b))
		}
		if a.Kind() == reflect.Interface {
			if a.Elem().Type() != b.Elem().Type() {
				return fmt.Sprintf("%s: dynamic type %s vs %s", pathOr(path), a.Elem().Type(), b.Elem().Type())
			}
		}
		return eq(a.Elem(), b.Elem(), path, exact)
	case reflect.Struct:
		t := a.Type()
		for i := 0; i < t.NumField(); i++ {
			f := t.Field(i)
			if !f.IsExported() {
				continue
			}
			if d := eq(a.Field(i), b.Field(i), path+"."+f.Name, exact); d != "" {
				return d
			}
		}
		return ""
	case reflect.Slice:
		if a.Len() != b.Len() {
			return fmt.Sprintf("%s: length %d vs %d", pathOr(path), a.Len(), b.Len())
		}
		for i := 0; i < a.Len(); i++ {
			if d := eq(a.Index(i), b.Index(i), path+"["+strconv.Itoa(i)+"]", exact); d != "" {
				return d
			}
		}
		return ""
	case reflect.Int, reflect.Int64:
		if a.Type() == posType && !exact {
			if (a.Int() < 0) != (b.Int() < 0) {
				return fmt.Sprintf("%s: position presence %d vs %d", pathOr(path), a.Int(), b.Int())
			}
			return ""
		}
		if a.Int() != b.Int() {
			return fmt.Sprintf("%s: %d vs %d", pathOr(path), a.Int(), b.Int())
		}
		return ""
	case reflect.String:
		if a.String() != b.String() {
			return fmt.Sprintf("%s: %q vs %q", pathOr(path), a.String(), b.String())
		}
		return ""
	case reflect.Bool:
		if a.Bool() != b.Bool() {
			return fmt.Sprintf("%s: %v vs %v", pathOr(path), a.Bool(), b.Bool())
		}
		return ""
	case reflect.Uint8:
		if a.Uint() != b.Uint() {
			return fmt.Sprintf("%s: byte %d vs %d", pathOr(path), a.Uint(), b.Uint())
		}
		return ""
	}
	if a.CanInterface() && b.CanInterface() && !reflect.DeepEqual(a.Interface(), b.Interface()) {
		return fmt.Sprintf("%s: %v vs %v", pathOr(path), a.Interface(), b.Interface())
	}
	return ""
}

func pathOr(p string) string {
	if p == "" {
		return "<root>"
	}
	return p
}

func short(v reflect.Value) string {
	if !v.IsValid() {
		return "invalid"
	}
	if (v.Kind() == reflect.Ptr || v.Kind() == reflect.Interface) && v.IsNil() {
		return "nil"
	}
	return v.Type().String()
}

// DiffSig turns the path returned by Equal into a signature component that
// names the field but not the position in a list: ".Results[3].Expr.Left" ->
// ".Results[].Expr.Left", and only the last two steps are kept.
func DiffSig(diff string) string {
	p := diff
	if i := strings.Index(p, ": "); i >= 0 {
		p = p[:i]
	}
	var b strings.Builder
	inIdx := false
	for _, r := range p {
		switch {
		case r == '[':
			inIdx = true
			b.WriteString("[")
		case r == ']':
			inIdx = false
			b.WriteString("]")
		case inIdx:
		default:
			b.WriteRune(r)
		}
	}
	steps := strings.Split(b.String(), ".")
	if len(steps) > 2 {
		steps = steps[len(steps)-2:]
	}
	kind := ""
	switch {
	case strings.Contains(diff, "position presence"):
		kind = " presence"
	case strings.Contains(diff, "length"):
		kind = " length"
	case strings.Contains(diff, "nil vs non-nil"):
		kind = " nil"
	case strings.Contains(diff, "dynamic type"):
		kind = " type"
	}
	return strings.Join(steps, ".") + kind
}

// ---- canonical dump ----

// Dump renders a value canonically. With pos=false token.Pos values are shown
// only as present (+) or absent (-).
func Dump(v any, pos bool) string {
	var b strings.Builder
	dump(&b, reflect.ValueOf(v), pos)
	return b.String()
}

func dump(b *strings.Builder, v reflect.Value, pos bool) {
	if !v.IsValid() {
		b.WriteString("nil")
		return
	}
	switch v.Kind() {
	case reflect.Ptr, reflect.Interface:
		if v.IsNil() {
			b.WriteString("nil")
			return
		}
		dump(b, v.Elem(), pos)
	case reflect.Struct:
		t := v.Type()
		b.WriteString(t.Name())
		b.WriteString("{")
		first := true
		for i := 0; i < t.NumField(); i++ {
			f := t.Field(i)
			if !f.IsExported() {
				continue
			}
			fv := v.Field(i)
			if isZeroish(fv) {
				continue
			}
			if !first {
				b.WriteString(" ")
			}
			first = false
			b.WriteString(f.Name)
			b.WriteString(":")
			dump(b, fv, pos)
		}
		b.WriteString("}")
	case reflect.Slice:
		if v.Type().Elem().Kind() == reflect.Uint8 {
			b.WriteString(strconv.Quote(string(v.Bytes())))
			return
		}
		b.WriteString("[")
		for i := 0; i < v.Len(); i++ {
			if i > 0 {
				b.WriteString(" ")
			}
			dump(b, v.Index(i), pos)
		}
		b.WriteString("]")
	case reflect.Int, reflect.Int64:
		if v.Type() == posType && !pos {
			if v.Int() < 0 {
				b.WriteString("-")
			} else {
				b.WriteString("+")
			}
			return
		}
		b.WriteString(strconv.FormatInt(v.Int(), 10))
	case reflect.String:
		b.WriteString(strconv.Quote(v.String()))
	case reflect.Bool:
		b.WriteString(strconv.FormatBool(v.Bool()))
	default:
		if v.CanInterface() {
			fmt.Fprintf(b, "%v", v.Interface())
		}
	}
}

func isZeroish(v reflect.Value) bool {
	switch v.Kind() {
	case reflect.Ptr, reflect.Interface:
		return v.IsNil()
	case reflect.Slice:
		return v.Len() == 0
	case reflect.String:
		return v.Len() == 0
	case reflect.Bool:
		return !v.Bool()
	}
	return false
}

// SortedKeys returns the keys of a string-keyed counter map in order.
func SortedKeys(m map[string]int64) []string {
	out := make([]string, 0, len(m))
	for k := range m {
		out = append(out, k)
	}
	sort.Strings(out)
	return out
}

// OwnerSig names the field where Equal found a difference by the struct type that owns it:
// ".From.Source.Left.Method: ..." on a tree rooted at root -> "Join.Method" (+ kind of difference).
func OwnerSig(root any, diff string) string {
	p := diff
	if i := strings.Index(p, ": "); i >= 0 {
		p = p[:i]
	}
	kind := ""
	switch {
	case strings.Contains(diff, "position presence"):
		kind = " presence"
	case strings.Contains(diff, "length"):
		kind = " length"
	case strings.Contains(diff, "nil vs non-nil"):
		kind = " nil"
	case strings.Contains(diff, "dynamic type"):
		kind = " type"
	}
	if p == "<root>" {
		return "<root>" + kind
	}
	v := reflect.ValueOf(root)
	owner := ""
	field := ""
	i := 0
	for i < len(p) {
		for v.IsValid() && (v.Kind() == reflect.Ptr || v.Kind() == reflect.Interface) {
			if v.IsNil() {
				return owner + "." + field + kind
			}
			v = v.Elem()
		}
		switch p[i] {
		case '.':
			j := i + 1
			for j < len(p) && p[j] != '.' && p[j] != '[' {
				j++
			}
			name := p[i+1 : j]
			if !v.IsValid() || v.Kind() != reflect.Struct {
				return owner + "." + name + kind
			}
			owner, field = v.Type().Name(), name
			v = v.FieldByName(name)
			i = j
		case '[':
			j := strings.IndexByte(p[i:], ']')
			if j < 0 {
				return owner + "." + field + kind
			}
			idx, _ := strconv.Atoi(p[i+1 : i+j])
			if v.IsValid() && v.Kind() == reflect.Slice && idx < v.Len() {
				v = v.Index(idx)
			} else {
				return owner + "." + field + kind
			}
			i += j + 1
		default:
			return owner + "." + field + kind
		}
	}
	return owner + "." + field + kind
}
