// Package reflex is a reference lexer for the GoogleSQL (Spanner) lexical
// structure, written from the specification in DESIGN.md Appendix B. It shares
// no code with memefish's lexer.go: own keyword table, own escape table, own
// number automaton, own whitespace set.
package reflex

import (
	"fmt"
	"strings"
	"unicode/utf8"
)

type Kind int

const (
	EOF Kind = iota
	Punct
	Keyword
	Ident
	Param
	Int
	Float
	String
	Bytes
)

func (k Kind) String() string {
	return [...]string{"eof", "punct", "keyword", "ident", "param", "int", "float", "string", "bytes"}[k]
}

type Comment struct {
	Space    string
	Raw      string
	Pos, End int
}

type Token struct {
	Kind     Kind
	Raw      string
	Pos, End int
	Value    string // ident name, param name, decoded string/bytes, upper-cased keyword, punctuation text
	Base     int    // 10 or 16 for Int
	Space    string
	Comments []Comment
}

// Reject is the error of an input the specification rejects.
type Reject struct {
	Pos int
	Msg string
}

func (r *Reject) Error() string { return fmt.Sprintf("reject at %d: %s", r.Pos, r.Msg) }

// reserved keywords of the documentation's table (GoogleSQL for Spanner).
var reserved = func() map[string]bool {
	m := map[string]bool{}
	for _, w := range strings.Fields(`
ALL AND ANY ARRAY AS ASC ASSERT_ROWS_MODIFIED AT BETWEEN BY CASE CAST COLLATE CONTAINS CREATE CROSS CUBE CURRENT
DEFAULT DEFINE DESC DISTINCT ELSE END ENUM ESCAPE EXCEPT EXCLUDE EXISTS EXTRACT FALSE FETCH FOLLOWING FOR FROM FULL
GRAPH_TABLE GROUP GROUPING GROUPS HASH HAVING IF IGNORE IN INNER INTERSECT INTERVAL INTO IS JOIN LATERAL LEFT LIKE
LIMIT LOOKUP MERGE NATURAL NEW NO NOT NULL NULLS OF ON OR ORDER OUTER OVER PARTITION PRECEDING PROTO RANGE RECURSIVE
RESPECT RIGHT ROLLUP ROWS SELECT SET SOME STRUCT TABLESAMPLE THEN TO TREAT TRUE UNBOUNDED UNION UNNEST USING WHEN
WHERE WINDOW WITH WITHIN`) {
		m[w] = true
	}
	return m
}()

// IsReserved reports whether s (any case) is a reserved keyword.
func IsReserved(s string) bool { return reserved[upperASCII(s)] }

// ReservedWords returns the table (sorted order is not guaranteed).
func ReservedWords() []string {
	out := make([]string, 0, len(reserved))
	for w := range reserved {
		out = append(out, w)
	}
	return out
}

func upperASCII(s string) string {
	b := []byte(s)
	for i, c := range b {
		if c >= 'a' && c <= 'z' {
			b[i] = c - 32
		}
	}
	return string(b)
}

func isIdentStart(c byte) bool { return c == '_' || c >= 'a' && c <= 'z' || c >= 'A' && c <= 'Z' }
func isDigit(c byte) bool      { return c >= '0' && c <= '9' }
func isIdentPart(c byte) bool  { return isIdentStart(c) || isDigit(c) }
func isHex(c byte) bool {
	return isDigit(c) || c >= 'a' && c <= 'f' || c >= 'A' && c <= 'F'
}
func isOct(c byte) bool { return c >= '0' && c <= '7' }

// whitespace by code point (the Unicode White_Space set).
func isSpaceRune(r rune) bool {
	switch {
	case r >= 0x09 && r <= 0x0D, r == 0x20, r == 0x85, r == 0xA0, r == 0x1680,
		r >= 0x2000 && r <= 0x200A, r == 0x2028, r == 0x2029, r == 0x202F, r == 0x205F, r == 0x3000:
		return true
	}
	return false
}

// IsSpaceOnly reports whether s consists of whitespace only.
func IsSpaceOnly(s string) bool {
	for len(s) > 0 {
		r, n := utf8.DecodeRuneInString(s)
		if r == utf8.RuneError && n <= 1 || !isSpaceRune(r) {
			return false
		}
		s = s[n:]
	}
	return true
}

var puncts = []string{
	// longest first within each leading byte
	"<<", "<=", "<>", "<", ">>", ">=", ">", "+=", "+", "-=", "->", "-", "=>", "=", "|>", "||", "|", "!=", "!", "@@", "@",
	"(", ")", "{", "}", ";", ",", "[", "]", "~", "*", "/", "&", "^", "%", ":", "?", "\\", "$", ".",
}

type lexer struct {
	src     string
	i       int
	prev    Kind
	prevRaw string
	hasPrev bool
	dotMode bool
}

// Lex tokenises src completely. On success the last token is EOF. On a
// lexical error it returns the tokens before the error and a *Reject.
func Lex(src string) ([]Token, error) {
	l := &lexer{src: src}
	var out []Token
	for {
		t, err := l.next()
		if err != nil {
			return out, err
		}
		out = append(out, t)
		if t.Kind == EOF {
			return out, nil
		}
	}
}

func (l *lexer) skipSpace() string {
	start := l.i
	for l.i < len(l.src) {
		r, n := utf8.DecodeRuneInString(l.src[l.i:])
		if r == utf8.RuneError && n <= 1 {
			break
		}
		if !isSpaceRune(r) {
			break
		}
		l.i += n
	}
	return l.src[start:l.i]
}

func (l *lexer) has(s string) bool { return strings.HasPrefix(l.src[l.i:], s) }

func (l *lexer) next() (Token, error) {
	var t Token
	var space string
	for {
		space = l.skipSpace()
		start := l.i
		switch {
		case l.has("#") || l.has("--") || l.has("//"):
			j := strings.IndexByte(l.src[l.i:], '\n')
			if j < 0 {
				l.i = len(l.src)
			} else {
				l.i += j + 1
			}
		case l.has("/*"):
			j := strings.Index(l.src[l.i+2:], "*/")
			if j < 0 {
				return t, &Reject{Pos: l.i, Msg: "unclosed comment"}
			}
			l.i += 2 + j + 2
		}
		if l.i == start {
			break
		}
		t.Comments = append(t.Comments, Comment{Space: space, Raw: l.src[start:l.i], Pos: start, End: l.i})
	}
	t.Space = space
	t.Pos = l.i
	dot := l.dotMode
	l.dotMode = false
	if err := l.scan(&t, dot); err != nil {
		return t, err
	}
	t.End = l.i
	t.Raw = l.src[t.Pos:t.End]
	l.prev, l.prevRaw, l.hasPrev = t.Kind, t.Raw, true
	return t, nil
}

func (l *lexer) prevAllowsDotIdent() bool {
	if !l.hasPrev {
		return false
	}
	switch l.prev {
	case Ident, Param:
		return true
	case Punct:
		return l.prevRaw == ")" || l.prevRaw == "]"
	}
	return false
}

func (l *lexer) scan(t *Token, dot bool) error {
	s := l.src
	if l.i >= len(s) {
		t.Kind = EOF
		return nil
	}
	c := s[l.i]
	if dot && isIdentPart(c) {
		j := l.i
		for j < len(s) && isIdentPart(s[j]) {
			j++
		}
		t.Kind, t.Value = Ident, s[l.i:j]
		l.i = j
		return nil
	}
	switch {
	case c == '.':
		if !l.prevAllowsDotIdent() && l.i+1 < len(s) && isDigit(s[l.i+1]) {
			return l.number(t)
		}
		l.i++
		t.Kind, t.Value = Punct, "."
		l.dotMode = l.prevAllowsDotIdent()
		return nil
	case isDigit(c):
		return l.number(t)
	case c == '`':
		v, err := l.quoted(1, "`", false, true, true)
		if err != nil {
			return err
		}
		if v == "" {
			return &Reject{Pos: t.Pos, Msg: "empty identifier"}
		}
		t.Kind, t.Value = Ident, v
		return nil
	case c == '"' || c == '\'':
		return l.literal(t, 0, false, false)
	case c == '@':
		if l.i+1 < len(s) && s[l.i+1] == '@' {
			l.i += 2
			t.Kind, t.Value = Punct, "@@"
			return nil
		}
		if l.i+1 < len(s) && isIdentStart(s[l.i+1]) {
			j := l.i + 1
			for j < len(s) && isIdentPart(s[j]) {
				j++
			}
			t.Kind, t.Value = Param, s[l.i+1:j]
			l.i = j
			return nil
		}
		l.i++
		t.Kind, t.Value = Punct, "@"
		return nil
	case isIdentStart(c):
		// literal prefix?
		if n, raw, byt, ok := l.prefix(); ok {
			return l.literal(t, n, raw, byt)
		}
		j := l.i
		for j < len(s) && isIdentPart(s[j]) {
			j++
		}
		w := s[l.i:j]
		l.i = j
		if reserved[upperASCII(w)] {
			t.Kind, t.Value = Keyword, upperASCII(w)
		} else {
			t.Kind, t.Value = Ident, w
		}
		return nil
	}
	for _, p := range puncts {
		if l.has(p) {
			l.i += len(p)
			t.Kind, t.Value = Punct, p
			return nil
		}
	}
	return &Reject{Pos: l.i, Msg: fmt.Sprintf("illegal byte 0x%02x", c)}
}

// prefix recognises r, b, rb, br (any case) directly followed by a quote.
func (l *lexer) prefix() (n int, raw, byt, ok bool) {
	s := l.src[l.i:]
	for n < 2 && n < len(s) {
		switch s[n] {
		case 'r', 'R':
			if raw {
				return 0, false, false, false
			}
			raw = true
		case 'b', 'B':
			if byt {
				return 0, false, false, false
			}
			byt = true
		default:
			goto done
		}
		n++
	}
done:
	if n == 0 || n >= len(s) || (s[n] != '"' && s[n] != '\'') {
		return 0, false, false, false
	}
	return n, raw, byt, true
}

func (l *lexer) literal(t *Token, prefixLen int, raw, byt bool) error {
	s := l.src
	q := s[l.i+prefixLen]
	delim := string(q)
	if strings.HasPrefix(s[l.i+prefixLen:], delim+delim+delim) {
		delim = delim + delim + delim
	}
	v, err := l.quoted(prefixLen+len(delim), delim, raw, !byt, false)
	if err != nil {
		return err
	}
	if byt {
		t.Kind = Bytes
	} else {
		t.Kind = String
	}
	t.Value = v
	return nil
}

// quoted scans a quoted body starting at l.i+open and leaves l.i after the
// closing delimiter. unicodeEsc allows \u and \U.
func (l *lexer) quoted(open int, delim string, raw, unicodeEsc, ident bool) (string, error) {
	s := l.src
	start := l.i
	j := l.i + open
	var out []byte
	for {
		if j >= len(s) {
			return "", &Reject{Pos: start, Msg: "unclosed literal"}
		}
		if strings.HasPrefix(s[j:], delim) {
			l.i = j + len(delim)
			return string(out), nil
		}
		c := s[j]
		if c == '\\' {
			if j+1 >= len(s) {
				return "", &Reject{Pos: j, Msg: "escape at end of input"}
			}
			e := s[j+1]
			if raw {
				out = append(out, '\\', e)
				j += 2
				continue
			}
			j += 2
			switch e {
			case 'a':
				out = append(out, 7)
			case 'b':
				out = append(out, 8)
			case 'f':
				out = append(out, 12)
			case 'n':
				out = append(out, 10)
			case 'r':
				out = append(out, 13)
			case 't':
				out = append(out, 9)
			case 'v':
				out = append(out, 11)
			case '\\', '?', '"', '\'', '`':
				out = append(out, e)
			case 'x', 'X':
				if j+2 > len(s) || !isHex(s[j]) || !isHex(s[j+1]) {
					return "", &Reject{Pos: j - 2, Msg: "bad hex escape"}
				}
				out = append(out, hexVal(s[j])<<4|hexVal(s[j+1]))
				j += 2
			case 'u', 'U':
				if !unicodeEsc {
					return "", &Reject{Pos: j - 2, Msg: "unicode escape in bytes literal"}
				}
				n := 4
				if e == 'U' {
					n = 8
				}
				if j+n > len(s) {
					return "", &Reject{Pos: j - 2, Msg: "short unicode escape"}
				}
				var r uint32
				for k := 0; k < n; k++ {
					if !isHex(s[j+k]) {
						return "", &Reject{Pos: j - 2, Msg: "bad unicode escape"}
					}
					r = r<<4 | uint32(hexVal(s[j+k]))
				}
				if r >= 0xD800 && r <= 0xDFFF || r > 0x10FFFF {
					return "", &Reject{Pos: j - 2, Msg: "invalid code point"}
				}
				var buf [4]byte
				m := utf8.EncodeRune(buf[:], rune(r))
				out = append(out, buf[:m]...)
				j += n
			case '0', '1', '2', '3':
				if j+2 > len(s) || !isOct(s[j]) || !isOct(s[j+1]) {
					return "", &Reject{Pos: j - 2, Msg: "bad octal escape"}
				}
				out = append(out, (e-'0')<<6|(s[j]-'0')<<3|(s[j+1]-'0'))
				j += 2
			default:
				return "", &Reject{Pos: j - 2, Msg: "unknown escape"}
			}
			continue
		}
		if c == '\n' && len(delim) == 1 {
			return "", &Reject{Pos: start, Msg: "newline in literal"}
		}
		out = append(out, c)
		j++
	}
}

func hexVal(c byte) byte {
	switch {
	case c >= '0' && c <= '9':
		return c - '0'
	case c >= 'a' && c <= 'f':
		return c - 'a' + 10
	}
	return c - 'A' + 10
}

func (l *lexer) number(t *Token) error {
	s := l.src
	j := l.i
	digits := func() int {
		k := j
		for j < len(s) && isDigit(s[j]) {
			j++
		}
		return j - k
	}
	exponent := func() bool {
		if j < len(s) && (s[j] == 'e' || s[j] == 'E') {
			k := j + 1
			if k < len(s) && (s[k] == '+' || s[k] == '-') {
				k++
			}
			if k < len(s) && isDigit(s[k]) {
				j = k
				digits()
				return true
			}
		}
		return false
	}
	if s[j] == '0' && j+1 < len(s) && (s[j+1] == 'x' || s[j+1] == 'X') {
		j += 2
		k := j
		for j < len(s) && isHex(s[j]) {
			j++
		}
		if j == k {
			return &Reject{Pos: l.i, Msg: "hex literal without digits"}
		}
		t.Kind, t.Base = Int, 16
	} else if s[j] == '.' {
		j++
		digits()
		exponent()
		t.Kind = Float
	} else {
		digits()
		t.Kind, t.Base = Int, 10
		if j < len(s) && s[j] == '.' {
			j++
			digits()
			t.Kind, t.Base = Float, 0
		}
		if exponent() {
			t.Kind, t.Base = Float, 0
		}
	}
	if j < len(s) && isIdentPart(s[j]) {
		return &Reject{Pos: l.i, Msg: "number glued to identifier"}
	}
	l.i = j
	return nil
}
