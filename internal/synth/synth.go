// Package synth builds synthetic instances of memefish node structs by
// reflection: every node type with a pseudo-random subset of its node-typed
// fields populated (interfaces by a random implementer, slices of length 0-3)
// and random values in its position / string / bool fields. An instance is a
// pure function of (type, seed), so a failing case replays from two values.
package synth

import (
	"reflect"

	"github.com/cloudspannerecosystem/memefish/ast"
	"github.com/cloudspannerecosystem/memefish/token"

	"verif/internal/astx"
)

var (
	posType   = reflect.TypeOf(token.Pos(0))
	tokenType = reflect.TypeOf(token.Token{})
)

type Builder struct {
	Types  []reflect.Type // pointer types, declaration order
	ByName map[string]reflect.Type
	impls  map[reflect.Type][]reflect.Type
	long   int
}

func New(reg []ast.Node) *Builder {
	b := &Builder{ByName: map[string]reflect.Type{}, impls: map[reflect.Type][]reflect.Type{}}
	for _, n := range reg {
		t := reflect.TypeOf(n)
		b.Types = append(b.Types, t)
		b.ByName[t.Elem().Name()] = t
	}
	return b
}

func (b *Builder) implementers(iface reflect.Type) []reflect.Type {
	if l, ok := b.impls[iface]; ok {
		return l
	}
	var l []reflect.Type
	for _, t := range b.Types {
		if t.Implements(iface) {
			l = append(l, t)
		}
	}
	b.impls[iface] = l
	return l
}

type rng struct{ s uint64 }

func (r *rng) next() uint64 {
	r.s += 0x9e3779b97f4a7c15
	z := r.s
	z = (z ^ (z >> 30)) * 0xbf58476d1ce4e5b9
	z = (z ^ (z >> 27)) * 0x94d049bb133111eb
	return z ^ (z >> 31)
}

func (r *rng) n(k int) int { return int(r.next() % uint64(k)) }

var strs = []string{"", "a", "abc", "-1", "+2", "select", "Name_2", "日本", "x y"}

// Build constructs an instance of the named node type.
func (b *Builder) Build(name string, seed uint64, depth int) ast.Node {
	t, ok := b.ByName[name]
	if !ok {
		return nil
	}
	r := &rng{s: seed}
	return b.build(t, r, depth).Interface().(ast.Node)
}

// BuildLong is Build, except that every node-slice field of the root gets exactly long elements (leaf instances).
func (b *Builder) BuildLong(name string, seed uint64, depth, long int) ast.Node {
	t, ok := b.ByName[name]
	if !ok {
		return nil
	}
	r := &rng{s: seed}
	b.long = long
	defer func() { b.long = 0 }()
	return b.build(t, r, depth).Interface().(ast.Node)
}

func (b *Builder) build(pt reflect.Type, r *rng, depth int) reflect.Value {
	v := reflect.New(pt.Elem())
	s := v.Elem()
	long := b.long
	b.long = 0 // only the root's slices are long
	for i := 0; i < s.NumField(); i++ {
		f := s.Type().Field(i)
		if !f.IsExported() {
			continue
		}
		fv := s.Field(i)
		ft := f.Type
		switch {
		case ft == posType:
			if r.n(10) < 7 {
				fv.SetInt(int64(r.n(200)))
			} else {
				fv.SetInt(-1)
			}
		case astx.IsNodeType(ft):
			if depth > 0 && r.n(10) < 6 {
				if c, ok := b.child(ft, r, depth-1); ok {
					fv.Set(c)
				}
			}
		case ft.Kind() == reflect.Slice && astx.IsNodeType(ft.Elem()):
			if depth > 0 {
				n := r.n(4)
				cd := depth - 1
				if long > 0 {
					n, cd = long, 0
				}
				sl := reflect.MakeSlice(ft, 0, n)
				for k := 0; k < n; k++ {
					if c, ok := b.child(ft.Elem(), r, cd); ok {
						sl = reflect.Append(sl, c)
					}
				}
				if sl.Len() > 0 {
					fv.Set(sl)
				}
			}
		case ft.Kind() == reflect.String:
			if ft.PkgPath() == "" { // plain string; const-typed strings stay empty
				fv.SetString(strs[r.n(len(strs))])
			}
		case ft.Kind() == reflect.Bool:
			fv.SetBool(r.n(2) == 0)
		case ft.Kind() == reflect.Int:
			fv.SetInt([]int64{10, 16}[r.n(2)])
		case ft.Kind() == reflect.Slice && ft.Elem().Kind() == reflect.Uint8:
			fv.SetBytes([]byte(strs[r.n(len(strs))]))
		}
	}
	return v
}

func (b *Builder) child(ft reflect.Type, r *rng, depth int) (reflect.Value, bool) {
	if ft.Kind() == reflect.Ptr {
		return b.build(ft, r, depth), true
	}
	impl := b.implementers(ft)
	if len(impl) == 0 {
		return reflect.Value{}, false
	}
	c := b.build(impl[r.n(len(impl))], r, depth)
	return c.Convert(ft), true
}
