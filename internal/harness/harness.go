// Package harness is the shared run-time of all property checks: case counters,
// distinct-hash sets, sample reservoir, known-finding filter, violation capture,
// shrinking (rapid + ddmin), replay files and the per-shard report.
package harness

import (
	"encoding/json"
	"flag"
	"fmt"
	"hash/fnv"
	"os"
	"path/filepath"
	"sort"
	"strconv"
	"strings"
	"sync"
	"time"

	"pgregory.net/rapid"
)

// Discrepancy is one way in which a case disagrees with its oracle. Sig names
// the root cause / call site (not the input) and is what known findings match.
type Discrepancy struct {
	Sig string
	Msg string
}

// Case is a reproducible unit: a property, a leg of its check, an entry point,
// an input and auxiliary choices. It is what a replay file stores.
type Case struct {
	Property string            `json:"property"`
	Leg      string            `json:"leg"`
	Entry    string            `json:"entry,omitempty"`
	Input    string            `json:"-"`
	InputQ   string            `json:"input_go_quoted"`
	Aux      map[string]string `json:"aux,omitempty"`
	Sigs     []string          `json:"signatures,omitempty"`
	Message  string            `json:"message,omitempty"`
}

func (c *Case) Clone() *Case {
	d := *c
	if c.Aux != nil {
		d.Aux = map[string]string{}
		for k, v := range c.Aux {
			d.Aux[k] = v
		}
	}
	d.Sigs = append([]string(nil), c.Sigs...)
	return &d
}

// Oracle recomputes all discrepancies of a case (no generator involved).
type Oracle func(ctx *Ctx, c *Case) []Discrepancy

// Property is what a props/cNN_test.go file registers.
type Property struct {
	ID string
	// Run executes every leg of the check for ctx.Tier.
	Run func(ctx *Ctx)
	// Oracle re-executes only the oracle on a stored case (replay, ddmin,
	// known-finding confirmation).
	Oracle Oracle
	// Rule is the stated non-trivial / distinct rule (goes into the evidence).
	Rule string
	// Minimize: the Input of a failing case is a string that may be shrunk by
	// deleting tokens / bytes while the same signature is still produced.
	Minimize bool
	// Assumptions listed in the evidence.
	Assumptions []string
}

var registry = map[string]*Property{}

func Register(p *Property) { registry[p.ID] = p }
func Lookup(id string) *Property {
	return registry[id]
}

type Known struct {
	Property string
	Sig      string
	Entry    string
	Leg      string
	Input    string
	Aux      map[string]string
	What     string
	Avoid    string
}

type Violation struct {
	Case   *Case  `json:"case"`
	Replay string `json:"replay"`
}

// Report is what one shard writes; the driver merges them.
type Report struct {
	Property       string           `json:"property"`
	Tier           string           `json:"tier"`
	Seed           int64            `json:"seed"`
	Shard          int              `json:"shard"`
	Shards         int              `json:"shards"`
	Evaluations    int64            `json:"evaluations"`
	Classes        map[string]int64 `json:"classes"`
	Hashes         []uint64         `json:"hashes"`
	HashesDropped  int64            `json:"hashes_dropped"`
	Samples        []any            `json:"samples"`
	ExcludedKnown  map[string]int64 `json:"excluded_known"`
	KnownConfirmed []string         `json:"known_confirmed"`
	Violations     []Violation      `json:"violations"`
	Infra          []string         `json:"infra"`
	Exhaustive     map[string]bool  `json:"exhaustive"`
	Extra          map[string]any   `json:"extra"`
	WallS          float64          `json:"wall_s"`
	Legs           map[string]int64 `json:"legs"`
	Rule           string           `json:"rule"`
	Assumptions    []string         `json:"assumptions"`
}

type Ctx struct {
	Prop  *Property
	Tier  string
	Seed  int64
	Shard int
	Of    int
	Root  string // /verif

	mu        sync.Mutex
	rep       Report
	hashes    map[uint64]struct{}
	known     []Known
	knownSet  map[string]bool
	localExcl map[string]bool
	pending   *Case
	sampleN   int64
	curLeg    string
	start     time.Time
	MaxHashes int
	// Collect: do not fail on unknown signatures, only tally them (development aid).
	Collect   bool
	collected map[string]*Case

	watchOnce  sync.Once
	watchMu    sync.Mutex
	watchCase  *Case
	watchSince time.Time
	watchLimit time.Duration
}

const maxViolationsPerLeg = 4

func envInt(name string, def int64) int64 {
	if v := os.Getenv(name); v != "" {
		if n, err := strconv.ParseInt(v, 10, 64); err == nil {
			return n
		}
	}
	return def
}

// NewCtx builds the context of this shard from the environment.
func NewCtx(p *Property) *Ctx {
	root := os.Getenv("VERIF_ROOT")
	if root == "" {
		root = "/verif"
	}
	tier := os.Getenv("VERIF_TIER")
	if tier != "thorough" {
		tier = "quick"
	}
	shard, of := 0, 1
	if s := os.Getenv("VERIF_SHARD"); s != "" {
		fmt.Sscanf(s, "%d/%d", &shard, &of)
		if of < 1 {
			of = 1
		}
	}
	c := &Ctx{
		Prop: p, Tier: tier, Seed: envInt("VERIF_SEED", 1), Shard: shard, Of: of, Root: root,
		hashes: map[uint64]struct{}{}, knownSet: map[string]bool{}, localExcl: map[string]bool{},
		start: time.Now(), MaxHashes: 200000, collected: map[string]*Case{},
		Collect: os.Getenv("VERIF_COLLECT") != "",
	}
	c.rep = Report{Property: p.ID, Tier: tier, Seed: c.Seed, Shard: shard, Shards: of,
		Classes: map[string]int64{}, ExcludedKnown: map[string]int64{}, Exhaustive: map[string]bool{},
		Extra: map[string]any{}, Legs: map[string]int64{}, Rule: p.Rule, Assumptions: p.Assumptions}
	c.known = LoadKnown(filepath.Join(root, "known_findings.txt"))
	for _, k := range c.known {
		if k.Property == p.ID {
			c.knownSet[k.Sig] = true
		}
	}
	return c
}

func (c *Ctx) Thorough() bool { return c.Tier == "thorough" }

// Pick returns q in the quick tier and th in the thorough tier.
func (c *Ctx) Pick(q, th int) int {
	if c.Thorough() {
		return th
	}
	return q
}

func (c *Ctx) Eval(n int64) {
	c.mu.Lock()
	c.rep.Evaluations += n
	c.rep.Legs[c.curLeg] += n
	c.mu.Unlock()
}

func (c *Ctx) Class(name string) { c.ClassN(name, 1) }
func (c *Ctx) ClassN(name string, n int64) {
	c.mu.Lock()
	c.rep.Classes[name] += n
	c.mu.Unlock()
}

func (c *Ctx) SetExtra(k string, v any) {
	c.mu.Lock()
	c.rep.Extra[k] = v
	c.mu.Unlock()
}

func (c *Ctx) Exhaustive(domain string, complete bool) {
	c.mu.Lock()
	c.rep.Exhaustive[domain] = complete
	c.mu.Unlock()
}

func Hash(parts ...string) uint64 {
	h := fnv.New64a()
	for _, p := range parts {
		h.Write([]byte(p))
		h.Write([]byte{0})
	}
	return h.Sum64()
}

// NonTrivial records a case that satisfies the property's non-trivial rule.
func (c *Ctx) NonTrivial(h uint64) {
	c.mu.Lock()
	if _, ok := c.hashes[h]; !ok {
		if len(c.hashes) < c.MaxHashes {
			c.hashes[h] = struct{}{}
		} else {
			c.rep.HashesDropped++
		}
	}
	c.mu.Unlock()
}

// Sample keeps a bounded, deterministic selection of cases for the evidence.
func (c *Ctx) Sample(s any) {
	c.mu.Lock()
	c.sampleN++
	n := c.sampleN
	// keep the 1st, 2nd, 4th, 8th ... seen case of this shard, at most 24.
	if n&(n-1) == 0 && len(c.rep.Samples) < 24 {
		c.rep.Samples = append(c.rep.Samples, s)
	}
	c.mu.Unlock()
}

func (c *Ctx) Infra(format string, args ...any) {
	c.mu.Lock()
	c.rep.Infra = append(c.rep.Infra, fmt.Sprintf(format, args...))
	c.mu.Unlock()
}

func (c *Ctx) IsKnown(sig string) bool { return c.knownSet[sig] }

// AvoidTags lists the `avoid=` feature tags of known findings of this property.
func (c *Ctx) AvoidTags() map[string]bool {
	m := map[string]bool{}
	for _, k := range c.known {
		if k.Property == c.Prop.ID && k.Avoid != "" {
			for _, a := range strings.Split(k.Avoid, ",") {
				m[a] = true
			}
		}
	}
	return m
}

// filter splits discrepancies into unknown ones and known / already reported ones.
func (c *Ctx) filter(ds []Discrepancy) (unknown []Discrepancy) {
	seen := map[string]bool{}
	for _, d := range ds {
		if seen[d.Sig] {
			continue
		}
		seen[d.Sig] = true
		if c.knownSet[d.Sig] {
			c.mu.Lock()
			c.rep.ExcludedKnown[d.Sig]++
			c.mu.Unlock()
			continue
		}
		if c.localExcl[d.Sig] {
			continue
		}
		unknown = append(unknown, d)
	}
	return unknown
}

// T is the subset of *rapid.T the harness needs.
type T interface {
	Fatalf(format string, args ...any)
}

// Check is called by a property with the discrepancies of one case. A case
// whose discrepancies are all known findings passes (and is counted).
// With t != nil an unknown discrepancy fails the rapid property (so rapid
// shrinks it); with t == nil (enumeration legs) it is recorded directly.
// It returns true if the case passed.
func (c *Ctx) Check(t T, cs *Case, ds []Discrepancy) bool {
	if len(ds) == 0 {
		return true
	}
	unknown := c.filter(ds)
	if len(unknown) == 0 {
		return true
	}
	cc := cs.Clone()
	cc.Property = c.Prop.ID
	if cc.Leg == "" {
		cc.Leg = c.curLeg
	}
	cc.Sigs = nil
	for _, d := range unknown {
		cc.Sigs = append(cc.Sigs, d.Sig)
	}
	cc.Message = unknown[0].Msg
	if c.Collect {
		c.mu.Lock()
		for _, d := range unknown {
			old := c.collected[d.Sig]
			if old == nil || len(cc.Input) < len(old.Input) {
				x := cc.Clone()
				x.Message = d.Msg
				c.collected[d.Sig] = x
			}
		}
		c.mu.Unlock()
		return true
	}
	if t != nil {
		c.pending = cc
		t.Fatalf("%s: %s", unknown[0].Sig, unknown[0].Msg)
		return false
	}
	c.recordViolation(cc)
	return false
}

// ViolationCount is the number of violations recorded so far in this shard.
func (c *Ctx) ViolationCount() int {
	c.mu.Lock()
	defer c.mu.Unlock()
	return len(c.rep.Violations)
}

func (c *Ctx) recordViolation(cc *Case) {
	cc = c.minimize(cc)
	for _, s := range cc.Sigs {
		c.localExcl[s] = true
	}
	path := c.writeReplay(cc)
	c.mu.Lock()
	c.rep.Violations = append(c.rep.Violations, Violation{Case: cc, Replay: path})
	c.mu.Unlock()
}

func (c *Ctx) writeReplay(cc *Case) string {
	cc.InputQ = strconv.Quote(cc.Input)
	dir := filepath.Join(c.Root, "replays")
	_ = os.MkdirAll(dir, 0o755)
	h := Hash(cc.Property, cc.Leg, cc.Entry, cc.Input, fmt.Sprint(cc.Aux))
	path := filepath.Join(dir, fmt.Sprintf("%s-%016x.json", cc.Property, h))
	b, _ := json.MarshalIndent(cc, "", "  ")
	_ = os.WriteFile(path, append(b, '\n'), 0o644)
	return path
}

// LoadCase reads a replay file.
func LoadCase(path string) (*Case, error) {
	b, err := os.ReadFile(path)
	if err != nil {
		return nil, err
	}
	var cc Case
	if err := json.Unmarshal(b, &cc); err != nil {
		return nil, err
	}
	s, err := strconv.Unquote(cc.InputQ)
	if err != nil {
		return nil, fmt.Errorf("bad input_go_quoted: %v", err)
	}
	cc.Input = s
	return &cc, nil
}

// minimize shrinks cc.Input (ddmin over chunks, then single bytes) while the
// oracle still produces the first signature of the case.
func (c *Ctx) minimize(cc *Case) *Case {
	if !c.Prop.Minimize || c.Prop.Oracle == nil || len(cc.Sigs) == 0 || len(cc.Input) == 0 {
		return cc
	}
	target := cc.Sigs[0]
	deadline := time.Now().Add(20 * time.Second)
	still := func(in string) bool {
		if time.Now().After(deadline) {
			return false
		}
		x := cc.Clone()
		x.Input = in
		ok := false
		func() {
			defer func() { _ = recover() }()
			for _, d := range c.Prop.Oracle(c, x) {
				if d.Sig == target {
					ok = true
					return
				}
			}
		}()
		return ok
	}
	if !still(cc.Input) {
		return cc
	}
	in := cc.Input
	for pass := 0; pass < 3; pass++ {
		before := len(in)
		for chunk := (len(in) + 1) / 2; chunk >= 1; chunk /= 2 {
			for i := 0; i+chunk <= len(in); {
				cand := in[:i] + in[i+chunk:]
				if still(cand) {
					in = cand
				} else {
					i += chunk
				}
			}
		}
		if len(in) == before {
			break
		}
	}
	out := cc.Clone()
	out.Input = in
	// recompute signatures / message on the minimal input
	func() {
		defer func() { _ = recover() }()
		ds := c.Prop.Oracle(c, out)
		var sigs []string
		msg := ""
		for _, d := range ds {
			if !c.knownSet[d.Sig] {
				sigs = append(sigs, d.Sig)
				if d.Sig == target {
					msg = d.Msg
				}
			}
		}
		if len(sigs) > 0 {
			// keep target first
			sort.SliceStable(sigs, func(i, j int) bool { return sigs[i] == target && sigs[j] != target })
			out.Sigs = sigs
			out.Message = msg
		}
	}()
	return out
}

// ---- fake testing.TB so several rapid.Check runs can live in one process ----

type failNow struct{}

type fakeTB struct {
	name   string
	failed bool
	log    []string
}

func (f *fakeTB) Helper()      {}
func (f *fakeTB) Name() string { return f.name }
func (f *fakeTB) Logf(format string, args ...any) {
	if len(f.log) < 200 {
		f.log = append(f.log, fmt.Sprintf(format, args...))
	}
}
func (f *fakeTB) Log(args ...any)                   { f.Logf("%s", fmt.Sprint(args...)) }
func (f *fakeTB) Skipf(format string, args ...any)  { panic(failNow{}) }
func (f *fakeTB) Skip(args ...any)                  { panic(failNow{}) }
func (f *fakeTB) SkipNow()                          { panic(failNow{}) }
func (f *fakeTB) Errorf(format string, args ...any) { f.failed = true; f.Logf(format, args...) }
func (f *fakeTB) Error(args ...any)                 { f.failed = true; f.Log(args...) }
func (f *fakeTB) Fatalf(format string, args ...any) {
	f.failed = true
	f.Logf(format, args...)
	panic(failNow{})
}
func (f *fakeTB) Fatal(args ...any) { f.failed = true; f.Log(args...); panic(failNow{}) }
func (f *fakeTB) FailNow()          { f.failed = true; panic(failNow{}) }
func (f *fakeTB) Fail()             { f.failed = true }
func (f *fakeTB) Failed() bool      { return f.failed }

// RapidSeed derives the PRNG value of a leg from VERIF_SEED, the shard and a
// round counter. It is never 0 (rapid treats 0 as "random").
func (c *Ctx) RapidSeed(leg string, round int) uint64 {
	h := Hash(leg) % 1000
	v := uint64(c.Seed)*1000003 + uint64(c.Shard)*7919 + h*104729 + uint64(round)*15485863
	v &= (1 << 62) - 1
	return v + 1
}

// Rapid runs one rapid leg with `checks` cases. If the property fails with a
// pending case (an oracle discrepancy) the shrunk case becomes a violation, its
// signatures are excluded and the leg continues with a fresh PRNG value, so a
// shallow defect does not hide the ones behind it.
func (c *Ctx) Rapid(leg string, checks int, prop func(t *rapid.T)) {
	if only := os.Getenv("VERIF_ONLYLEG"); only != "" && only != leg {
		return // development switch: run one leg only
	}
	if s := os.Getenv("VERIF_LEGCHECKS"); s != "" && os.Getenv("VERIF_ONLYLEG") != "" {
		if n, err := strconv.Atoi(s); err == nil {
			checks = n
		}
	}
	c.curLeg = leg
	t0 := time.Now()
	defer func() {
		c.curLeg = ""
		c.mu.Lock()
		c.rep.Extra["leg_wall_s:"+leg] = time.Since(t0).Seconds()
		c.mu.Unlock()
	}()
	if checks <= 0 {
		return
	}
	for round := 0; round < maxViolationsPerLeg+1; round++ {
		_ = flag.Set("rapid.checks", strconv.Itoa(checks))
		_ = flag.Set("rapid.seed", strconv.FormatUint(c.RapidSeed(leg, round), 10))
		_ = flag.Set("rapid.nofailfile", "true")
		_ = flag.Set("rapid.shrinktime", "20s")
		tb := &fakeTB{name: c.Prop.ID + "_" + leg}
		c.pending = nil
		func() {
			defer func() {
				if r := recover(); r != nil {
					if _, ok := r.(failNow); !ok {
						panic(r)
					}
				}
			}()
			rapid.Check(tb, prop)
		}()
		if !tb.failed {
			return
		}
		if c.pending == nil {
			c.Infra("leg %s: rapid failed without an oracle discrepancy: %s", leg, strings.Join(tb.log, " | "))
			return
		}
		cc := c.pending
		c.pending = nil
		c.recordViolation(cc)
		if round == maxViolationsPerLeg {
			return
		}
	}
}

// Guard arms the hang watchdog for one oracle call: if the returned func is
// not called within limit, the case is written to VERIF_HANGFILE and the
// process exits with status 3 (the driver then re-runs that case alone).
func (c *Ctx) Guard(cs *Case, limit time.Duration) func() {
	if os.Getenv("VERIF_WATCHDOG") == "off" {
		return func() {} // isolated confirmation run: the driver's own 120 s limit decides
	}
	c.watchOnce.Do(func() {
		go func() {
			for {
				time.Sleep(500 * time.Millisecond)
				c.watchMu.Lock()
				cur, since, lim := c.watchCase, c.watchSince, c.watchLimit
				c.watchMu.Unlock()
				if cur != nil && time.Since(since) > lim {
					cc := cur.Clone()
					cc.Property = c.Prop.ID
					cc.InputQ = strconv.Quote(cc.Input)
					cc.Sigs = []string{c.Prop.ID + " hang"}
					cc.Message = fmt.Sprintf("call did not return within %v", lim)
					if path := os.Getenv("VERIF_HANGFILE"); path != "" {
						b, _ := json.MarshalIndent(cc, "", "  ")
						_ = os.WriteFile(path, b, 0o644)
					}
					fmt.Fprintf(os.Stderr, "WATCHDOG: %s entry=%s input=%s\n", cc.Message, cc.Entry, trunc(cc.InputQ, 300))
					os.Exit(3)
				}
			}
		}()
	})
	c.watchMu.Lock()
	c.watchCase, c.watchSince, c.watchLimit = cs, time.Now(), limit
	c.watchMu.Unlock()
	return func() {
		c.watchMu.Lock()
		c.watchCase = nil
		c.watchMu.Unlock()
	}
}

func trunc(s string, n int) string {
	if len(s) > n {
		return s[:n] + "..."
	}
	return s
}

// Leg marks a non-rapid leg (enumeration); counters are attributed to it.
func (c *Ctx) Leg(leg string, f func()) {
	if only := os.Getenv("VERIF_ONLYLEG"); only != "" && only != leg {
		return // development switch: run one leg only
	}
	c.curLeg = leg
	t0 := time.Now()
	defer func() {
		c.curLeg = ""
		c.mu.Lock()
		c.rep.Extra["leg_wall_s:"+leg] = time.Since(t0).Seconds()
		c.mu.Unlock()
	}()
	f()
}

// ConfirmKnown replays the stored input of every known finding of this property through the oracle.
// A finding that still fails with its signature is recorded (shard 0 reports it as KNOWN-FINDING).
// A finding is identified by its input as well as by its signature: if the stored input still fails but
// no longer under the recorded signature (e.g. the parser's complaint was reworded), the signatures it
// now produces are treated as aliases of the known one, so a cosmetic change does not turn a listed
// finding into an alarm. If the stored input no longer fails at all, nothing is printed or suppressed.
func (c *Ctx) ConfirmKnown() {
	if c.Prop.Oracle == nil {
		return
	}
	for _, k := range c.known {
		if k.Property != c.Prop.ID {
			continue
		}
		cs := &Case{Property: k.Property, Leg: k.Leg, Entry: k.Entry, Input: k.Input, Aux: k.Aux}
		var ds []Discrepancy
		func() {
			defer func() { _ = recover() }()
			ds = c.Prop.Oracle(c, cs)
		}()
		hit := false
		for _, d := range ds {
			if d.Sig == k.Sig {
				hit = true
			}
		}
		alias := ""
		if !hit && len(ds) > 0 {
			for _, d := range ds {
				if !c.knownSet[d.Sig] {
					c.knownSet[d.Sig] = true
					alias += " [now reported as: " + d.Sig + "]"
				}
			}
			hit = alias != ""
		}
		if hit && c.Shard == 0 {
			c.rep.KnownConfirmed = append(c.rep.KnownConfirmed,
				fmt.Sprintf("property=%s sig=%q entry=%s input=%s what=%s%s", k.Property, k.Sig, k.Entry, strconv.Quote(k.Input), k.What, alias))
		}
	}
}

// Finish writes the shard report.
func (c *Ctx) Finish() {
	c.mu.Lock()
	defer c.mu.Unlock()
	c.rep.Hashes = make([]uint64, 0, len(c.hashes))
	for h := range c.hashes {
		c.rep.Hashes = append(c.rep.Hashes, h)
	}
	sort.Slice(c.rep.Hashes, func(i, j int) bool { return c.rep.Hashes[i] < c.rep.Hashes[j] })
	c.rep.WallS = time.Since(c.start).Seconds()
	if c.Collect {
		var sigs []string
		for s := range c.collected {
			sigs = append(sigs, s)
		}
		sort.Strings(sigs)
		fmt.Printf("COLLECT %s: %d unknown signatures\n", c.Prop.ID, len(sigs))
		for _, s := range sigs {
			x := c.collected[s]
			fmt.Printf("  SIG %q\n      entry=%s leg=%s input=%s\n      msg=%s\n", s, x.Entry, x.Leg, strconv.Quote(x.Input), x.Message)
		}
	}
	path := os.Getenv("VERIF_REPORT")
	if path == "" {
		return
	}
	b, err := json.Marshal(&c.rep)
	if err != nil {
		fmt.Fprintln(os.Stderr, "report marshal:", err)
		return
	}
	_ = os.WriteFile(path, b, 0o644)
}

// ---- known_findings.txt ----

// LoadKnown parses the line-oriented known-findings file:
//
//	known: property=C02 sig="..." entry=ParseQuery input="..." what="..."
//	fixed: property=C01 <commit> <what failed>          (documentation only)
func LoadKnown(path string) []Known {
	b, err := os.ReadFile(path)
	if err != nil {
		return nil
	}
	var out []Known
	for _, line := range strings.Split(string(b), "\n") {
		line = strings.TrimSpace(line)
		if !strings.HasPrefix(line, "known:") {
			continue
		}
		kv := parseKV(strings.TrimSpace(strings.TrimPrefix(line, "known:")))
		k := Known{Property: kv["property"], Sig: kv["sig"], Entry: kv["entry"], Leg: kv["leg"],
			Input: kv["input"], What: kv["what"], Avoid: kv["avoid"]}
		for key, v := range kv {
			if strings.HasPrefix(key, "aux.") {
				if k.Aux == nil {
					k.Aux = map[string]string{}
				}
				k.Aux[strings.TrimPrefix(key, "aux.")] = v
			}
		}
		if k.Property != "" && k.Sig != "" {
			out = append(out, k)
		}
	}
	return out
}

// parseKV parses `key=value key="go quoted value" ...`.
func parseKV(s string) map[string]string {
	m := map[string]string{}
	i := 0
	for i < len(s) {
		for i < len(s) && s[i] == ' ' {
			i++
		}
		j := i
		for j < len(s) && s[j] != '=' && s[j] != ' ' {
			j++
		}
		if j >= len(s) || s[j] != '=' {
			break
		}
		key := s[i:j]
		j++
		if j < len(s) && s[j] == '"' {
			// find the end of the Go-quoted string
			k := j + 1
			for k < len(s) {
				if s[k] == '\\' {
					k += 2
					continue
				}
				if s[k] == '"' {
					break
				}
				k++
			}
			if k >= len(s) {
				break
			}
			v, err := strconv.Unquote(s[j : k+1])
			if err != nil {
				v = s[j+1 : k]
			}
			m[key] = v
			i = k + 1
		} else {
			k := j
			for k < len(s) && s[k] != ' ' {
				k++
			}
			m[key] = s[j:k]
			i = k
		}
	}
	return m
}

// FuzzCheck is Check for native fuzz targets: an unknown discrepancy is minimised, written as a
// replay file and its path returned ("" when the case passes).
func (c *Ctx) FuzzCheck(cs *Case, ds []Discrepancy) (replay string, sig string) {
	if len(ds) == 0 {
		return "", ""
	}
	unknown := c.filter(ds)
	if len(unknown) == 0 {
		return "", ""
	}
	cc := cs.Clone()
	cc.Property = c.Prop.ID
	cc.Sigs = nil
	for _, d := range unknown {
		cc.Sigs = append(cc.Sigs, d.Sig)
	}
	cc.Message = unknown[0].Msg
	cc = c.minimize(cc)
	return c.writeReplay(cc), unknown[0].Sig
}
