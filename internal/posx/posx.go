// Package posx is an independent interpreter for the position-expression
// language of the ast package documentation:
//
//	PosChoice -> PosExpr ("||" PosExpr)*
//	PosExpr   -> PosAtom ("+" IntAtom)*
//	PosAtom   -> PosVar | NodeExpr "." ("pos" | "end")
//	NodeExpr  -> NodeAtom | "(" NodeAtom ("??" NodeAtom)* ")"
//	NodeAtom  -> NodeVar | NodeSliceVar "[" (IntAtom | "$") "]"
//	IntAtom   -> IntVal | "len" "(" StringVar ")" | "(" BoolVar "?" IntAtom ":" IntAtom ")"
//
// It shares no code with tools/util/poslang. It also extracts the "// pos = " and
// "// end = " lines of every node struct from ast/ast.go by itself.
package posx

import (
	"fmt"
	"os"
	"reflect"
	"regexp"
	"strconv"
	"strings"

	"github.com/cloudspannerecosystem/memefish/ast"
	"github.com/cloudspannerecosystem/memefish/token"
)

type Spec struct {
	Pos, End string
}

// LoadSpecs reads the pos/end lines of every `type X struct` in ast.go.
func LoadSpecs(astFile string) (map[string]Spec, error) {
	b, err := os.ReadFile(astFile)
	if err != nil {
		return nil, err
	}
	out := map[string]Spec{}
	typeRe := regexp.MustCompile(`^type (\w+) struct \{`)
	posRe := regexp.MustCompile(`^\s*// pos = (.*)$`)
	endRe := regexp.MustCompile(`^\s*// end = (.*)$`)
	cur := ""
	for _, ln := range strings.Split(string(b), "\n") {
		if m := typeRe.FindStringSubmatch(ln); m != nil {
			cur = m[1]
			continue
		}
		if cur == "" {
			continue
		}
		if m := posRe.FindStringSubmatch(ln); m != nil {
			s := out[cur]
			s.Pos = strings.TrimSpace(m[1])
			out[cur] = s
		}
		if m := endRe.FindStringSubmatch(ln); m != nil {
			s := out[cur]
			s.End = strings.TrimSpace(m[1])
			out[cur] = s
		}
		if ln == "}" {
			cur = ""
		}
	}
	return out, nil
}

type parser struct {
	s string
	i int
}

func (p *parser) ws() {
	for p.i < len(p.s) && (p.s[p.i] == ' ' || p.s[p.i] == '\t') {
		p.i++
	}
}

func (p *parser) eat(tok string) bool {
	p.ws()
	if strings.HasPrefix(p.s[p.i:], tok) {
		p.i += len(tok)
		return true
	}
	return false
}

func (p *parser) ident() string {
	p.ws()
	j := p.i
	for j < len(p.s) && (p.s[j] == '_' || p.s[j] >= 'a' && p.s[j] <= 'z' || p.s[j] >= 'A' && p.s[j] <= 'Z' || (j > p.i && p.s[j] >= '0' && p.s[j] <= '9')) {
		j++
	}
	id := p.s[p.i:j]
	p.i = j
	return id
}

type evalErr struct{ msg string }

func fail(format string, args ...any) { panic(evalErr{fmt.Sprintf(format, args...)}) }

// Eval evaluates a position expression on node x. It returns the position and
// a description of which alternative was chosen ("" when there is no choice).
func Eval(expr string, x ast.Node) (pos token.Pos, chosen string, err error) {
	defer func() {
		if r := recover(); r != nil {
			if e, ok := r.(evalErr); ok {
				err = fmt.Errorf("%s", e.msg)
				return
			}
			panic(r)
		}
	}()
	p := &parser{s: expr}
	v := reflect.ValueOf(x)
	if v.Kind() == reflect.Ptr {
		v = v.Elem()
	}
	pos, chosen = p.posChoice(v)
	p.ws()
	if p.i != len(p.s) {
		fail("trailing text %q", p.s[p.i:])
	}
	return pos, chosen, nil
}

func (p *parser) posChoice(x reflect.Value) (token.Pos, string) {
	res := token.InvalidPos
	chosen := ""
	alt := 0
	for {
		v, ch := p.posExpr(x)
		if res.Invalid() && !v.Invalid() {
			res = v
			chosen = fmt.Sprintf("||%d%s", alt, ch)
		}
		alt++
		if !p.eat("||") {
			break
		}
	}
	if alt == 1 {
		chosen = strings.TrimPrefix(chosen, "||0")
	}
	return res, chosen
}

func (p *parser) posExpr(x reflect.Value) (token.Pos, string) {
	v, ch := p.posAtom(x)
	for p.eat("+") {
		n := p.intAtom(x)
		ch += "+"
		if !v.Invalid() {
			v = token.Pos(int(v) + n)
		}
	}
	return v, ch
}

func field(x reflect.Value, name string) reflect.Value {
	f := x.FieldByName(name)
	if !f.IsValid() {
		fail("no field %s in %s", name, x.Type())
	}
	return f
}

func (p *parser) posAtom(x reflect.Value) (token.Pos, string) {
	p.ws()
	if p.i < len(p.s) && p.s[p.i] == '(' {
		n, ch := p.nodeExpr(x)
		return p.posOf(n), ch
	}
	name := p.ident()
	if name == "" {
		fail("expected a name at %q", p.s[p.i:])
	}
	f := field(x, name)
	if f.Type() == reflect.TypeOf(token.Pos(0)) {
		return token.Pos(f.Int()), ""
	}
	// NodeVar or NodeSliceVar [...]
	n := p.nodeFrom(x, f)
	return p.posOf(n), ""
}

// posOf reads ".pos" / ".end" of a (possibly nil) node.
func (p *parser) posOf(n ast.Node) token.Pos {
	if !p.eat(".") {
		fail("expected .pos or .end at %q", p.s[p.i:])
	}
	which := p.ident()
	if n == nil {
		return token.InvalidPos
	}
	switch which {
	case "pos":
		return n.Pos()
	case "end":
		return n.End()
	}
	fail("expected pos or end, got %q", which)
	return token.InvalidPos
}

func asNode(v reflect.Value) ast.Node {
	if !v.IsValid() {
		return nil
	}
	if (v.Kind() == reflect.Ptr || v.Kind() == reflect.Interface) && v.IsNil() {
		return nil
	}
	n, _ := v.Interface().(ast.Node)
	if n == nil {
		return nil
	}
	rv := reflect.ValueOf(n)
	if rv.Kind() == reflect.Ptr && rv.IsNil() {
		return nil
	}
	return n
}

// nodeFrom resolves a NodeAtom whose variable has already been read.
func (p *parser) nodeFrom(x reflect.Value, f reflect.Value) ast.Node {
	if f.Kind() == reflect.Slice {
		if !p.eat("[") {
			fail("slice variable without index at %q", p.s[p.i:])
		}
		var n ast.Node
		if p.eat("$") {
			if f.Len() > 0 {
				n = asNode(f.Index(f.Len() - 1))
			}
		} else {
			i := p.intAtom(x)
			if f.Len() > 0 {
				if i >= f.Len() {
					fail("index %d out of range", i)
				}
				n = asNode(f.Index(i))
			}
		}
		if !p.eat("]") {
			fail("expected ] at %q", p.s[p.i:])
		}
		return n
	}
	return asNode(f)
}

func (p *parser) nodeAtom(x reflect.Value) ast.Node {
	name := p.ident()
	if name == "" {
		fail("expected a node variable at %q", p.s[p.i:])
	}
	return p.nodeFrom(x, field(x, name))
}

func (p *parser) nodeExpr(x reflect.Value) (ast.Node, string) {
	if !p.eat("(") {
		return p.nodeAtom(x), ""
	}
	var res ast.Node
	chosen := ""
	alt := 0
	for {
		n := p.nodeAtom(x)
		if res == nil && n != nil {
			res = n
			chosen = "??" + strconv.Itoa(alt)
		}
		alt++
		if !p.eat("??") {
			break
		}
	}
	if !p.eat(")") {
		fail("expected ) at %q", p.s[p.i:])
	}
	if alt == 1 {
		chosen = ""
	}
	return res, chosen
}

func (p *parser) intAtom(x reflect.Value) int {
	p.ws()
	if p.i < len(p.s) && p.s[p.i] >= '0' && p.s[p.i] <= '9' {
		j := p.i
		for j < len(p.s) && p.s[j] >= '0' && p.s[j] <= '9' {
			j++
		}
		n, _ := strconv.Atoi(p.s[p.i:j])
		p.i = j
		return n
	}
	if p.eat("len") {
		if !p.eat("(") {
			fail("expected ( after len")
		}
		f := field(x, p.ident())
		if !p.eat(")") {
			fail("expected ) after len(var")
		}
		if f.Kind() != reflect.String {
			fail("len of non-string")
		}
		return f.Len()
	}
	if p.eat("(") {
		f := field(x, p.ident())
		if f.Kind() != reflect.Bool {
			fail("condition is not a bool field")
		}
		if !p.eat("?") {
			fail("expected ?")
		}
		a := p.intAtom(x)
		if !p.eat(":") {
			fail("expected :")
		}
		b := p.intAtom(x)
		if !p.eat(")") {
			fail("expected )")
		}
		if f.Bool() {
			return a
		}
		return b
	}
	fail("expected an integer atom at %q", p.s[p.i:])
	return 0
}
