package gen

import (
	"fmt"
	"strings"
	"unicode/utf8"

	"pgregory.net/rapid"

	"verif/internal/reflex"
)

// Piece is a rendered lexeme: the gap (trivia) before it and its text.
type Piece struct {
	Lex  Lex
	Gap  string
	Text string
}

// Text joins rendered pieces (tail is trailing trivia).
func Text(ps []Piece, tail string) string {
	var b strings.Builder
	for _, p := range ps {
		b.WriteString(p.Gap)
		b.WriteString(p.Text)
	}
	b.WriteString(tail)
	return b.String()
}

// RenderOpts tunes the renderer.
type RenderOpts struct {
	// Plain: single blanks, upper-case keywords, minimal quoting (for readable samples / replay).
	Plain bool
	// NoComments: whitespace only.
	NoComments bool
}

// Render spells W with drawn trivia, keyword case, quoting and escape choices.
func Render(t *rapid.T, w []Lex, o RenderOpts) ([]Piece, string) {
	ps := make([]Piece, len(w))
	for i, l := range w {
		ps[i].Lex = l
		ps[i].Text = spell(t, l, o)
	}
	tail := Respace(t, ps, o)
	return ps, tail
}

// Respace draws new gaps for all pieces (keeping every lexeme's text) and returns trailing trivia.
func Respace(t *rapid.T, ps []Piece, o RenderOpts) string {
	for i := range ps {
		var prev *Lex
		if i > 0 {
			prev = &ps[i-1].Lex
		}
		ps[i].Gap = gap(t, prev, &ps[i].Lex, i == 0, o)
	}
	if o.Plain {
		return ""
	}
	if rapid.IntRange(0, 3).Draw(t, "tail") == 0 {
		return trivia(t, o, true)
	}
	return ""
}

// EOFComment is, one time in three, white space and a line comment that runs to the end of the input (no newline; bodies down to
// the empty one). Only for texts that are parsed as they are: appended to a sentence that is then joined with others it would swallow them.
func EOFComment(t *rapid.T) string {
	if rapid.IntRange(0, 2).Draw(t, "eof-comment") != 0 {
		return ""
	}
	return rapid.SampledFrom(wsChoices).Draw(t, "ws") + rapid.SampledFrom([]string{"#", "--", "//"}).Draw(t, "eof-comment.opener") + commentBody(t, false)
}

// Recase draws new letter case for every keyword / pseudo keyword piece.
func Recase(t *rapid.T, ps []Piece) (changed int) {
	for i := range ps {
		if ps[i].Lex.K == KW || ps[i].Lex.K == PKW {
			n := kwCase(t, ps[i].Lex.V)
			if n != ps[i].Text {
				changed++
			}
			ps[i].Text = n
		}
	}
	return changed
}

func isOpener(l *Lex) bool {
	return l.K == PUNCT && (l.V == "(" || l.V == "[" || l.V == "{" || l.V == ",")
}

func isCloser(l *Lex) bool {
	return l.K == PUNCT && (l.V == ")" || l.V == "]" || l.V == "}" || l.V == "," || l.V == ";")
}

func gap(t *rapid.T, prev, cur *Lex, first bool, o RenderOpts) string {
	if cur.Glue {
		return ""
	}
	emptyOK := first || cur.Loose || isCloser(cur) || (prev != nil && isOpener(prev))
	if prev != nil && prev.K == PUNCT && cur.K == PUNCT && !cur.Loose && !isCloser(cur) && !isOpener(prev) {
		emptyOK = false
	}
	if o.Plain {
		if emptyOK {
			return ""
		}
		return " "
	}
	if emptyOK && rapid.IntRange(0, 2).Draw(t, "gap.empty") > 0 {
		return ""
	}
	return trivia(t, o, false)
}

var wsChoices = []string{" ", " ", " ", " ", " ", "\n", "\n", "\t", "  ", "\r\n", " \n ", "\u00a0", "\u00a0 ", "\u3000\n", " \u2028", "\u00a0\t\u00a0", "\v", "\f "}
var commentChoices = []string{"/* c */", "/**/", "/* ; */", "/* ' \" ` */", "-- c\n", "--\n", "# c ; '\n", "// c\n", "/* -- */", "/*\n*/", "-- /* \n", "/* SELECT */"}

var commentBodyParts = []string{"c", " ", ";", "'", "\"", "`", "/*", "--", "#", "//", "é", "\\", "SELECT", "\t", "*", "/", "@", "{", ")", "\u00a0", "x*"}

// commentBody composes 0-4 parts; a block body may contain newlines and never contains "*/". A lone CR is left out on purpose:
// whether it ends a line comment is an interpretive decision of the lexical reference (DESIGN 3.5), not something C16 should depend on.
func commentBody(t *rapid.T, block bool) string {
	var b strings.Builder
	for i, n := 0, rapid.IntRange(0, 4).Draw(t, "comment.parts"); i < n; i++ {
		if block && rapid.IntRange(0, 5).Draw(t, "comment.nl") == 0 {
			b.WriteString("\n")
			continue
		}
		b.WriteString(rapid.SampledFrom(commentBodyParts).Draw(t, "comment.part"))
	}
	if block {
		return strings.ReplaceAll(b.String(), "*/", "* /")
	}
	return b.String()
}

func comment(t *rapid.T) string {
	switch rapid.IntRange(0, 3).Draw(t, "comment.kind") {
	case 0:
		return rapid.SampledFrom([]string{"--", "#", "//"}).Draw(t, "comment.opener") + commentBody(t, false) + "\n"
	case 1:
		return "/*" + commentBody(t, true) + "*/"
	}
	return rapid.SampledFrom(commentChoices).Draw(t, "comment")
}

func trivia(t *rapid.T, o RenderOpts, mayBeEmpty bool) string {
	var b strings.Builder
	b.WriteString(rapid.SampledFrom(wsChoices).Draw(t, "ws"))
	if !o.NoComments {
		for rapid.IntRange(0, 7).Draw(t, "comment?") == 0 {
			b.WriteString(comment(t))
			if rapid.IntRange(0, 3).Draw(t, "ws-after-comment") > 0 { // a comment may touch the next token
				b.WriteString(rapid.SampledFrom(wsChoices).Draw(t, "ws"))
			}
		}
	}
	return b.String()
}

func kwCase(t *rapid.T, v string) string {
	switch rapid.IntRange(0, 5).Draw(t, "kwcase") {
	case 0, 1, 2:
		return v
	case 3:
		return strings.ToLower(v)
	case 4:
		return v[:1] + strings.ToLower(v[1:])
	default:
		b := []byte(strings.ToLower(v))
		for i := range b {
			if i%2 == 1 && b[i] >= 'a' && b[i] <= 'z' {
				b[i] -= 32
			}
		}
		return string(b)
	}
}

func identShaped(s string) bool {
	if s == "" {
		return false
	}
	for i := 0; i < len(s); i++ {
		c := s[i]
		if !(c == '_' || c >= 'a' && c <= 'z' || c >= 'A' && c <= 'Z' || (i > 0 && c >= '0' && c <= '9')) {
			return false
		}
	}
	return true
}

func spell(t *rapid.T, l Lex, o RenderOpts) string {
	switch l.K {
	case KW, PKW:
		if o.Plain {
			return l.V
		}
		return kwCase(t, l.V)
	case ID:
		if l.Bare {
			return l.V
		}
		must := l.MustQuote || !identShaped(l.V) || reflex.IsReserved(l.V)
		if !must && (o.Plain || rapid.IntRange(0, 4).Draw(t, "quote-ident") > 0) {
			return l.V
		}
		return "`" + escapeBody(t, l.V, '`', false, true, o) + "`"
	case INT, FLOAT:
		return l.V
	case PARAM:
		return "@" + l.V
	case PUNCT:
		return l.V
	case STR:
		return literal(t, l.V, false, o)
	case BYTES:
		return literal(t, l.V, true, o)
	}
	return l.V
}

// literal spells a string / bytes literal whose decoded value is v.
func literal(t *rapid.T, v string, isBytes bool, o RenderOpts) string {
	quotes := []string{"\"", "'", "\"\"\"", "'''"}
	q := quotes[0]
	if !o.Plain {
		q = rapid.SampledFrom(quotes).Draw(t, "quote")
	}
	prefix := ""
	if isBytes {
		prefix = "b"
		if !o.Plain {
			prefix = rapid.SampledFrom([]string{"b", "B"}).Draw(t, "bprefix")
		}
	}
	// raw form when the value can be written verbatim
	if !o.Plain && rawable(v, q) && rapid.IntRange(0, 3).Draw(t, "raw") == 0 {
		r := rapid.SampledFrom([]string{"r", "R"}).Draw(t, "rprefix")
		if isBytes {
			if rapid.Bool().Draw(t, "rb-order") {
				prefix = r + prefix
			} else {
				prefix = prefix + r
			}
		} else {
			prefix = r
		}
		return prefix + q + v + q
	}
	return prefix + q + escapeBody(t, v, q[0], len(q) == 3, !isBytes, o) + q
}

func rawable(v, q string) bool {
	if strings.ContainsAny(v, "\\\n\r") || strings.Contains(v, q[:1]) || !utf8.ValidString(v) {
		return false
	}
	for _, r := range v {
		if r < 0x20 || r == 0x7f {
			return false
		}
	}
	return true
}

var namedEscapes = map[byte]string{7: `\a`, 8: `\b`, 12: `\f`, 10: `\n`, 13: `\r`, 9: `\t`, 11: `\v`, '?': `\?`, '"': `\"`, '\'': `\'`, '`': "\\`", '\\': `\\`}

// escapeBody writes v inside a literal delimited by quote (triple or not).
func escapeBody(t *rapid.T, v string, quote byte, triple, unicodeEsc bool, o RenderOpts) string {
	var b strings.Builder
	numeric := func(c byte) string {
		if o.Plain {
			return fmt.Sprintf(`\x%02x`, c)
		}
		switch rapid.IntRange(0, 2).Draw(t, "numesc") {
		case 0:
			return fmt.Sprintf(`\x%02x`, c)
		case 1:
			return fmt.Sprintf(`\X%02X`, c)
		default:
			return fmt.Sprintf(`\%03o`, c)
		}
	}
	for i := 0; i < len(v); {
		c := v[i]
		if c < 0x80 {
			i++
			switch {
			case c == '\\':
				b.WriteString(`\\`)
			case c == quote:
				b.WriteString(namedEscapes[c])
			case c == '\n' && !triple:
				if o.Plain || rapid.Bool().Draw(t, "nl-esc") {
					b.WriteString(`\n`)
				} else {
					b.WriteString(numeric(c))
				}
			case c == '\n' && triple:
				if o.Plain || rapid.Bool().Draw(t, "nl-raw") {
					b.WriteByte(c)
				} else {
					b.WriteString(`\n`)
				}
			case c < 0x20 || c == 0x7f:
				if e, ok := namedEscapes[c]; ok && (o.Plain || rapid.Bool().Draw(t, "named-esc")) {
					b.WriteString(e)
				} else if c == '\t' && !o.Plain && rapid.Bool().Draw(t, "tab-raw") {
					b.WriteByte(c)
				} else {
					b.WriteString(numeric(c))
				}
			default:
				// printable ASCII: mostly verbatim, sometimes escaped. (\u / \U escapes are kept rarer than the other
				// forms only because each one costs memefish ~100 us: its decoder zeroes a [utf8.MaxRune]byte array.)
				if !o.Plain && rapid.IntRange(0, 14).Draw(t, "esc-printable") == 0 {
					if e, ok := namedEscapes[c]; ok {
						b.WriteString(e)
					} else if unicodeEsc && rapid.IntRange(0, 3).Draw(t, "u-esc") == 0 {
						b.WriteString(fmt.Sprintf(`\u%04x`, c))
					} else {
						b.WriteString(numeric(c))
					}
				} else {
					b.WriteByte(c)
				}
			}
			continue
		}
		r, n := utf8.DecodeRuneInString(v[i:])
		if r == utf8.RuneError && n <= 1 {
			b.WriteString(numeric(c))
			i++
			continue
		}
		if unicodeEsc && !o.Plain && rapid.IntRange(0, 5).Draw(t, "rune-esc") == 0 {
			if r > 0xFFFF || rapid.Bool().Draw(t, "U8") {
				b.WriteString(fmt.Sprintf(`\U%08x`, r))
			} else {
				b.WriteString(fmt.Sprintf(`\u%04X`, r))
			}
		} else if !unicodeEsc {
			// bytes literal: non-ASCII as byte escapes or verbatim UTF-8
			if o.Plain || rapid.Bool().Draw(t, "bytes-esc") {
				for k := 0; k < n; k++ {
					b.WriteString(numeric(v[i+k]))
				}
			} else {
				b.WriteString(v[i : i+n])
			}
		} else {
			b.WriteString(v[i : i+n])
		}
		i += n
	}
	return b.String()
}

// Plain renders W readably and deterministically (samples, signatures' shrunk sentences).
func Plain(w []Lex) string {
	var ps []Piece
	for _, l := range w {
		ps = append(ps, Piece{Lex: l, Text: spell(nil, l, RenderOpts{Plain: true})})
	}
	for i := range ps {
		var prev *Lex
		if i > 0 {
			prev = &ps[i-1].Lex
		}
		ps[i].Gap = gap(nil, prev, &ps[i].Lex, i == 0, RenderOpts{Plain: true})
	}
	return Text(ps, "")
}
