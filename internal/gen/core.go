// Package gen is G: a grammar-directed sentence generator for the Spanner
// GoogleSQL language (the forms memefish implements), written from the
// documentation / the syntax templates of the node catalogue, independent of
// parser.go and ast/sql.go. Every production emits two parallel lexeme lists:
// W (what the user writes) and C (the canonical form after only the documented
// canonicalisations), so that the expected token sequence of an unparse never
// comes from the code under test.
package gen

import (
	"sort"
	"strings"

	"pgregory.net/rapid"

	"verif/internal/reflex"
)

type LK int

const (
	KW    LK = iota // reserved keyword
	PKW             // pseudo keyword: identifier spelled as a keyword by the grammar
	ID              // user identifier (by name)
	INT             // integer literal (by spelling)
	FLOAT           // floating point literal (by spelling)
	STR             // string literal (by decoded value)
	BYTES           // bytes literal (by decoded value)
	PARAM           // query parameter (by name)
	PUNCT           // punctuation
)

func (k LK) String() string {
	return [...]string{"kw", "pkw", "id", "int", "float", "str", "bytes", "param", "punct"}[k]
}

// Lex is one lexeme.
type Lex struct {
	K LK
	V string
	// MustQuote: identifier that has to be written back-quoted here (pseudo-keyword-like
	// name in a position where the bare spelling would be read as syntax).
	MustQuote bool
	// Bare: identifier written without quotes whatever it spells (directly after a dot).
	Bare bool
	// Glue: no trivia is written between the previous lexeme and this one.
	Glue bool
	// Loose: the gap before this lexeme may be empty (next to brackets/commas the renderer
	// decides that itself; this flag allows it for e.g. '>' '>' and '<' after ARRAY).
	Loose bool
}

func (l Lex) Class() string {
	switch l.K {
	case KW, PKW:
		return l.K.String() + ":" + l.V
	case PUNCT:
		return "'" + l.V + "'"
	}
	return l.K.String()
}

// Frag is a sentence fragment: written and canonical lexemes.
type Frag struct {
	W, C []Lex
}

func cat(fs ...Frag) Frag {
	var out Frag
	for _, f := range fs {
		out.W = append(out.W, f.W...)
		out.C = append(out.C, f.C...)
	}
	return out
}

func both(l Lex) Frag { return Frag{W: []Lex{l}, C: []Lex{l}} }

// wOnly keeps a fragment in the written form only (noise the canonical form drops).
func wOnly(f Frag) Frag { return Frag{W: f.W} }

// cOnly keeps a fragment in the canonical form only (noise the user omitted).
func cOnly(f Frag) Frag { return Frag{C: f.C} }

// k is one or more keywords separated by blanks; each is classified as reserved
// or pseudo keyword by the documentation's reserved-word table.
func k(words string) Frag {
	var f Frag
	for _, w := range strings.Fields(words) {
		lk := PKW
		if reflex.IsReserved(w) {
			lk = KW
		}
		f = cat(f, both(Lex{K: lk, V: strings.ToUpper(w)}))
	}
	return f
}

// p is punctuation. "(" , ")" , "," etc.
func p(s string) Frag { return both(Lex{K: PUNCT, V: s}) }

// pl is punctuation that may be glued to the previous lexeme.
func pl(s string) Frag { return both(Lex{K: PUNCT, V: s, Loose: true}) }

func empty() Frag { return Frag{} }

// G is the generator state for one sentence.
type G struct {
	T     *rapid.T
	Depth int
	Tags  map[string]int
	Avoid map[string]bool
	// Relaxed widens G beyond the documented grammar (list minimums lowered to zero, a few clause
	// combinations the documentation does not show). It is only used by properties that quantify
	// over every ACCEPTED input (C01, C04, C05 ...), never where G stands for the documentation (C02, C08).
	Relaxed bool
	// Long allows one very long list (120..330 elements) per sentence.
	Long       bool
	longUsed   bool
	mediumUsed int
	longForm   string
	// NoWithExpr suppresses the WITH(...) expression (inside THEN RETURN, where a leading WITH
	// is read as WITH ACTION).
	NoWithExpr bool
	// Avoided counts how often an avoided feature was left out.
	Avoided int
	n       int
}

func New(t *rapid.T, depth int, avoid map[string]bool) *G {
	return &G{T: t, Depth: depth, Tags: map[string]int{}, Avoid: avoid}
}

func (g *G) label(s string) string {
	g.n++
	return s
}

func (g *G) tag(s string) { g.Tags[s]++ }

// flip draws an optional-clause decision and records both states.
func (g *G) flip(tag string) bool {
	if g.Avoid[tag] {
		// a confirmed rejection: leave the feature out in ~90% of the sentences
		if rapid.IntRange(0, 9).Draw(g.T, g.label(tag+"?avoid")) != 0 {
			g.Avoided++
			g.tag(tag + "=0")
			return false
		}
		g.tag(tag + "=1")
		return true
	}
	b := rapid.Bool().Draw(g.T, g.label(tag))
	if b {
		g.tag(tag + "=1")
	} else {
		g.tag(tag + "=0")
	}
	return b
}

// rare is flip with probability 1/n.
func (g *G) rare(tag string, n int) bool {
	if g.Avoid[tag] {
		return g.flip(tag)
	}
	b := rapid.IntRange(0, n-1).Draw(g.T, g.label(tag)) == 0
	if b {
		g.tag(tag + "=1")
	} else {
		g.tag(tag + "=0")
	}
	return b
}

func (g *G) pick(tag string, n int) int {
	i := rapid.IntRange(0, n-1).Draw(g.T, g.label(tag))
	return i
}

// choose picks one alternative by name and records it.
func (g *G) choose(tag string, alts ...string) string {
	var ok []string
	for _, a := range alts {
		if !g.Avoid[tag+":"+a] {
			ok = append(ok, a)
		}
	}
	if len(ok) == 0 || (len(ok) < len(alts) && rapid.IntRange(0, 9).Draw(g.T, g.label(tag+"?avoid")) == 0) {
		ok = alts
	} else if len(ok) < len(alts) {
		g.Avoided++
	}
	a := ok[rapid.IntRange(0, len(ok)-1).Draw(g.T, g.label(tag))]
	g.tag(tag + ":" + a)
	return a
}

// count draws a list length in [min,max], biased to min, min+1 and 2..3.
func (g *G) count(tag string, min, max int) int {
	if g.Relaxed && min > 0 && rapid.IntRange(0, 5).Draw(g.T, g.label(tag+"#relaxed")) == 0 {
		g.tag(tag + "#relaxed-0")
		return min - 1
	}
	if max > min && max >= 2 {
		// list lengths beyond the usual 0/1/2/3: medium (4..12) sometimes, long (120..330) in Long mode only.
		// The bounds passed by the productions are generator bounds, not limits of the grammar.
		switch rapid.IntRange(0, 39).Draw(g.T, g.label(tag+"#size")) {
		case 0, 1:
			if g.mediumUsed >= 2 {
				break // at most two medium lists per sentence: nested medium lists multiply the sentence size
			}
			g.mediumUsed++
			g.tag(tag + "#medium")
			return rapid.IntRange(4, 12).Draw(g.T, g.label(tag+"#medium"))
		case 2:
			if g.Long && !g.longUsed {
				g.longUsed = true
				g.Depth = 0 // the elements of a very long list are atoms or one small composite form, to keep the sentence tractable
				g.longForm = []string{"atom", "tuple", "paren", "call", "array", "struct", "nested-tuple", "unary", "binary", "mixed", "tuple", "mixed"}[rapid.IntRange(0, 11).Draw(g.T, g.label(tag+"#longform"))]
				g.tag("long.form:" + g.longForm)
				g.tag(tag + "#long")
				return rapid.IntRange(120, 330).Draw(g.T, g.label(tag+"#long"))
			}
		}
	}
	if max <= min {
		return min
	}
	opts := []int{min, min, min + 1, 2, 2, 3, max}
	var ok []int
	for _, o := range opts {
		if o >= min && o <= max {
			ok = append(ok, o)
		}
	}
	n := ok[rapid.IntRange(0, len(ok)-1).Draw(g.T, g.label(tag+"#"))]
	switch {
	case n == 0:
		g.tag(tag + "#0")
	case n == 1:
		g.tag(tag + "#1")
	default:
		g.tag(tag + "#2+")
	}
	return n
}

// list builds item {sep item} with n items.
func (g *G) list(n int, sep Frag, item func(i int) Frag) Frag {
	var f Frag
	for i := 0; i < n; i++ {
		if i > 0 {
			f = cat(f, sep)
		}
		f = cat(f, item(i))
	}
	return f
}

func (g *G) commaList(tag string, min, max int, item func(i int) Frag) Frag {
	return g.list(g.count(tag, min, max), p(","), item)
}

// opt emits f() when the flip says so.
func (g *G) opt(tag string, f func() Frag) Frag {
	if g.flip(tag) {
		return f()
	}
	return empty()
}

// ---- identifiers ----

var plainNames = []string{"a", "b", "c", "t1", "_x", "Col_2", "tbl", "x", "y", "Singers", "SingerId", "n", "v1", "Albums", "z9", "T", "fld", "e", "e5", "E10"} // (e5 / E10: exponent-shaped, glue with a preceding "1." into a float)

var reservedList = func() []string {
	l := reflex.ReservedWords()
	sort.Strings(l)
	return l
}()

var quotedNames = []string{"select", "", "ORDER", "", "a b", "1x", "x-y", "日本", "a`b", "a\\b", "", "", "null", "table name", "Hash", "proto", "new", "é", "a.b", "'q'", "x\ny"}

// confusableNames case-fold (under full Unicode folding) to builtin type names / pseudo keywords but are different identifiers:
// U+017F LATIN SMALL LETTER LONG S for s, U+212A KELVIN SIGN for k.
var confusableNames = []string{"\u017fTRING", "\u017fAFE_OFF\u017fET", "TO\u212aENLIST", "OFF\u017fET", "\u212aEY", "BYTE\u017f", "IN\u017fERT", "\u017fELECT", "TIME\u017fTAMP", "J\u017fON"}

var pseudoNames = []string{"value", "key", "table", "index", "options", "insert", "update", "delete", "replace", "date", "timestamp",
	"sequence", "model", "min", "max", "row", "policy", "action", "stored", "hidden", "column", "constraint", "foreign", "check", "synonym",
	"safe_cast", "replace_fields", "numeric", "json", "count", "percent", "bernoulli", "role", "view", "graph", "label", "properties", "source",
	"destination", "references", "input", "output", "remote", "change", "stream", "search", "vector", "generated", "identity", "auto_increment",
	"primary", "interleave", "parent", "cascade", "enforced", "values", "return", "zone", "time", "int64", "string", "bytes", "bool"}

// identPos says how freely a name may be spelled at a position.
type identPos int

const (
	posStrict identPos = iota // pseudo-keyword-like names must be quoted
	posSafe                   // after AS, inside a parenthesised identifier list: any non-reserved name may be bare
)

func (g *G) name(pos identPos) Frag {
	c := rapid.IntRange(0, 9).Draw(g.T, g.label("name.pool"))
	switch {
	case c < 6:
		return both(Lex{K: ID, V: plainNames[rapid.IntRange(0, len(plainNames)-1).Draw(g.T, g.label("name.plain"))]})
	case c < 8 && rapid.IntRange(0, 7).Draw(g.T, g.label("name.confusable")) == 0:
		g.tag("ident.unicode-confusable")
		return both(Lex{K: ID, V: confusableNames[rapid.IntRange(0, len(confusableNames)-1).Draw(g.T, g.label("name.confusable.n"))]})
	case c < 8 && rapid.IntRange(0, 5).Draw(g.T, g.label("name.composed")) == 0:
		// a composed name: quotes, back-quote, backslash, blanks, dots, non-ASCII in one identifier
		parts := []string{"a", "B", "1", " ", "-", "`", "\\", "'", "\"", "é", ".", "\n", "_", "*/", "--"}
		k := rapid.IntRange(1, 5).Draw(g.T, g.label("name.composed.n"))
		var b strings.Builder
		for i := 0; i < k; i++ {
			b.WriteString(parts[rapid.IntRange(0, len(parts)-1).Draw(g.T, g.label("name.composed.part"))])
		}
		g.tag("ident.composed")
		return both(Lex{K: ID, V: b.String()})
	case c < 8:
		n := quotedNames[rapid.IntRange(0, len(quotedNames)-1).Draw(g.T, g.label("name.quoted"))]
		if n == "" {
			// any reserved keyword of the documentation's table, in a drawn letter case
			n = reservedList[rapid.IntRange(0, len(reservedList)-1).Draw(g.T, g.label("name.reserved"))]
			switch rapid.IntRange(0, 2).Draw(g.T, g.label("name.reserved.case")) {
			case 0:
				n = strings.ToLower(n)
			case 1:
				n = n[:1] + strings.ToLower(n[1:])
			}
			g.tag("ident.reserved-keyword")
		}
		g.tag("ident.needs-quote")
		return both(Lex{K: ID, V: n})
	default:
		n := pseudoNames[rapid.IntRange(0, len(pseudoNames)-1).Draw(g.T, g.label("name.pseudo"))]
		if rapid.Bool().Draw(g.T, g.label("name.upper")) {
			n = strings.ToUpper(n)
		}
		g.tag("ident.pseudo-keyword-like")
		return both(Lex{K: ID, V: n, MustQuote: pos == posStrict})
	}
}

// plain is an identifier from the plain pool only (function names, type names ...).
func (g *G) plain() Frag {
	return both(Lex{K: ID, V: plainNames[rapid.IntRange(0, len(plainNames)-1).Draw(g.T, g.label("name.plain"))]})
}

func idLex(name string) Frag { return both(Lex{K: ID, V: name}) }

// path is ident {"." ident}; the dots are glued or loose.
func (g *G) path(tag string, min, max int) Frag {
	n := g.count(tag, min, max)
	f := g.name(posStrict)
	for i := 1; i < n; i++ {
		f = cat(f, pl("."), g.afterDot())
	}
	return f
}

// afterDot is an identifier directly after a dot: sometimes a bare keyword or digits-led name.
func (g *G) afterDot() Frag {
	switch rapid.IntRange(0, 7).Draw(g.T, g.label("afterdot")) {
	case 0:
		g.tag("ident.bare-keyword-after-dot")
		w := []string{"select", "FROM", "group", "Order", "all", "hash", "null", "array"}[rapid.IntRange(0, 7).Draw(g.T, g.label("afterdot.kw"))]
		return both(Lex{K: ID, V: w, Bare: true, Glue: true})
	case 1:
		g.tag("ident.digits-after-dot")
		w := []string{"1", "2x", "007", "1e5", "0x1"}[rapid.IntRange(0, 4).Draw(g.T, g.label("afterdot.num"))]
		return both(Lex{K: ID, V: w, Bare: true, Glue: true})
	default:
		f := g.name(posSafe)
		f.W[0].Loose = true
		f.C[0].Loose = true
		return f
	}
}

// TagList returns the recorded feature tags sorted.
func (g *G) TagList() []string {
	var out []string
	for t := range g.Tags {
		out = append(out, t)
	}
	sort.Strings(out)
	return out
}

// ---- literals ----

var stringValues = []string{"", "abc", "it's", "say \"hi\"", "a;b", "--x", "/*c*/", "line\nbreak", "tab\t", "back\\slash", "日本語", "é", "\x00", "\x7f", "\xff",
	"`tick`", "'\"", "2024-01-02", "{\"a\":1}", "1.5", "%a_", "\r\n", "'''", "\"\"\"", "a'''b", "\\x41", " ", "\U0001F600", "?", "#"}

// valueParts are concatenated into composed literal values (quotes of all kinds, backslashes, escapes-as-text, control and
// non-ASCII characters in one value: the combinations a fixed pool never has).
var valueParts = []string{"'", "\"", "`", "\\", "a", " ", "\n", "é", "{", "}", ":", "\t", "\x00", "x", "%", "--", "/*", "*/", ";", "\\n", "\\\"", "''", "\"\"", "日", "\x7f", "\u0085", "\\u0041", "#", "?",
	"\xef\xbf", "\xf0\x9f", "\xe2\x82", "\xc3", "\u0080", "\u009f", "\ufffd"} // (truncated multi-byte sequences, C1 controls, U+FFFD itself)

func (g *G) composedValue(tag string, bytes bool) string {
	n := rapid.IntRange(1, 6).Draw(g.T, g.label(tag+".parts"))
	var b strings.Builder
	for i := 0; i < n; i++ {
		if bytes && rapid.IntRange(0, 9).Draw(g.T, g.label(tag+".rawbyte")) == 0 {
			b.WriteByte(rapid.Byte().Draw(g.T, g.label(tag+".byte")))
			continue
		}
		b.WriteString(valueParts[rapid.IntRange(0, len(valueParts)-1).Draw(g.T, g.label(tag+".part"))])
	}
	g.tag("value.composed")
	return b.String()
}

func (g *G) strLit() Frag {
	if rapid.IntRange(0, 3).Draw(g.T, g.label("str.composed")) == 0 {
		return both(Lex{K: STR, V: g.composedValue("str", false)})
	}
	v := stringValues[rapid.IntRange(0, len(stringValues)-1).Draw(g.T, g.label("str.value"))]
	return both(Lex{K: STR, V: v})
}

func (g *G) bytesLit() Frag {
	if rapid.IntRange(0, 3).Draw(g.T, g.label("bytes.composed")) == 0 {
		return both(Lex{K: BYTES, V: g.composedValue("bytes", true)})
	}
	v := stringValues[rapid.IntRange(0, len(stringValues)-1).Draw(g.T, g.label("bytes.value"))]
	return both(Lex{K: BYTES, V: v})
}

var intSpellings = []string{"0", "1", "2", "10", "42", "1234567", "0x0", "0xFF", "0X1f", "007", "9223372036854775807",
	"08", "09", "99999999999999999999", "0xFFFFFFFFFFFFFFFFF", "9223372036854775808", "00"}
var floatSpellings = []string{"1.5", "1.", "1e10", "1.5e-3", "2E+4", "0.0", "123.456e7", "1.e2", "0.5"}

// leading-dot spellings are only written right after an operator (a '.' after an identifier-like token starts dot-identifier mode)
var dotFloatSpellings = []string{".5", ".0e1", ".25E-2"}

func (g *G) intLit() Frag {
	return both(Lex{K: INT, V: intSpellings[rapid.IntRange(0, len(intSpellings)-1).Draw(g.T, g.label("int"))]})
}

func (g *G) floatLit() Frag {
	return both(Lex{K: FLOAT, V: floatSpellings[rapid.IntRange(0, len(floatSpellings)-1).Draw(g.T, g.label("float"))]})
}

func (g *G) param() Frag {
	n := []string{"p", "p1", "limit", "Name_2", "select", "_"}[rapid.IntRange(0, 5).Draw(g.T, g.label("param"))]
	return both(Lex{K: PARAM, V: n})
}

// Sentence is a complete generated input.
type Sentence struct {
	Kind string // query, ddl, dml, call, expr, type
	W, C []Lex
	Tags []string
	// Avoided: number of avoided (known-finding) features left out of this sentence.
	Avoided int
}
