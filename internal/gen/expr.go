package gen

import (
	"pgregory.net/rapid"
)

// Precedence levels of the documented operator table (DESIGN.md appendix A).
const (
	lvAtom    = 0
	lvPostfix = 1
	lvUnary   = 2
	lvMul     = 3
	lvAdd     = 4
	lvShift   = 5
	lvBitAnd  = 6
	lvBitXor  = 7
	lvBitOr   = 8
	lvCmp     = 9
	lvNot     = 10
	lvAnd     = 11
	lvOr      = 12
	lvAny     = 99
)

type binOp struct {
	text  string
	level int
}

var binOps = []binOp{
	{"*", lvMul}, {"/", lvMul}, {"||", lvMul}, {"+", lvAdd}, {"-", lvAdd}, {"<<", lvShift}, {">>", lvShift},
	{"&", lvBitAnd}, {"^", lvBitXor}, {"|", lvBitOr},
	{"=", lvCmp}, {"!=", lvCmp}, {"<>", lvCmp}, {"<", lvCmp}, {"<=", lvCmp}, {">", lvCmp}, {">=", lvCmp}, {"LIKE", lvCmp}, {"NOT LIKE", lvCmp},
	{"AND", lvAnd}, {"OR", lvOr},
}

// E is an expression fragment with its precedence level.
type E struct {
	Frag
	Level int
	// endsNum: the expression's last lexeme is a decimal integer literal (a following "." needs care).
	endsNum bool
}

func paren(e E) E {
	return E{Frag: cat(p("("), e.Frag, p(")")), Level: lvAtom}
}

// fit parenthesises e when its level is looser than the slot accepts; sometimes adds a redundant pair.
func (g *G) fit(e E, slot int) Frag {
	if e.Level > slot {
		return paren(e).Frag
	}
	if g.rare("expr.redundant-paren", 12) {
		return paren(e).Frag
	}
	return e.Frag
}

func opFrag(text string) Frag {
	switch text {
	case "<>":
		// documented spelling variant of !=
		return Frag{W: []Lex{{K: PUNCT, V: "<>"}}, C: []Lex{{K: PUNCT, V: "!="}}}
	case "LIKE", "NOT LIKE", "AND", "OR":
		return k(text)
	}
	return p(text)
}

// Expr generates an expression of any level.
func (g *G) Expr() Frag { return g.expr().Frag }

// ExprOperandMatrix puts a drawn primary under a drawn operator (C04's matrix).
func (g *G) ExprOperandMatrix() Frag {
	prim := g.primary()
	g.Depth = 1
	switch g.pick("matrix.op", 8) {
	case 0:
		op := binOps[g.pick("matrix.bin", len(binOps))]
		return cat(g.fit(prim, op.level), opFrag(op.text), g.fit(g.atomExpr(), op.level-1))
	case 1:
		op := binOps[g.pick("matrix.bin", len(binOps))]
		l := op.level
		if l != lvCmp {
			l--
		} else {
			l = lvBitOr
		}
		return cat(g.fit(g.atomExpr(), lvBitOr), opFrag(op.text), g.fit(prim, l))
	case 2:
		return cat(p([]string{"-", "+", "~"}[g.pick("matrix.un", 3)]), g.fit(prim, lvUnary))
	case 3:
		return cat(k("NOT"), g.fit(prim, lvNot))
	case 4:
		if prim.endsNum {
			if g.flip("matrix.field-on-number.bare") {
				// field access directly on an integer literal: white space before the dot is mandatory ("1 .x"; "1.x" is not a token sequence)
				return cat(g.fit(prim, lvPostfix), p("."), g.safeField())
			}
			prim = paren(prim)
		}
		return cat(g.fit(prim, lvPostfix), pl("."), g.safeField())
	case 5:
		return cat(g.fit(prim, lvPostfix), pl("["), g.atomExpr().Frag, pl("]"))
	case 6:
		return cat(g.fit(prim, lvBitOr), k([]string{"IS NULL", "IS NOT NULL", "IS TRUE", "IS NOT FALSE"}[g.pick("matrix.is", 4)]))
	default:
		return cat(g.fit(prim, lvBitOr), k("BETWEEN"), g.fit(g.atomExpr(), lvBitOr), k("AND"), g.fit(prim, lvBitOr))
	}
}

func (g *G) safeField() Frag {
	f := g.name(posSafe)
	f.W[0].Loose, f.C[0].Loose = true, true
	return f
}

func (g *G) atomExpr() E {
	if g.longUsed && g.longForm != "atom" && g.pick("atom.small-composite", 8) > 0 {
		// elements of a very long list: one dominant small composite form, so that hundreds of tuples / parenthesised
		// expressions / calls / array and struct literals occur in one parse
		x, y := g.simpleAtom(), g.simpleAtom()
		form := g.longForm
		if form == "mixed" {
			form = g.choose("long.element", "tuple", "paren", "call", "array", "struct", "nested-tuple", "unary", "binary")
		}
		switch form {
		case "tuple":
			return E{Frag: cat(p("("), x, p(","), y, p(")"))}
		case "paren":
			return E{Frag: cat(p("("), x, p(")"))}
		case "call":
			return E{Frag: cat(g.plain(), pl("("), x, p(")"))}
		case "array":
			return E{Frag: cat(p("["), x, p(","), y, p("]"))}
		case "struct":
			return E{Frag: cat(k("STRUCT"), pl("("), x, p(")"))}
		case "nested-tuple":
			return E{Frag: cat(p("("), x, p(","), p("("), y, p(")"), p(")"))}
		case "unary":
			return E{Frag: cat(p("-"), x), Level: lvUnary}
		default:
			return E{Frag: cat(x, p("+"), y), Level: lvAdd}
		}
	}
	return g.plainAtom()
}

func (g *G) simpleAtom() Frag {
	if g.flip("long.atom.int") {
		return g.intLit()
	}
	return g.plain()
}

func (g *G) plainAtom() E {
	switch g.pick("atom", 6) {
	case 0:
		return E{Frag: g.intLit(), endsNum: true}
	case 1:
		return E{Frag: g.param()}
	case 2:
		return E{Frag: g.strLit()}
	case 3:
		return E{Frag: g.path("expr.path", 1, 3)}
	default:
		return E{Frag: g.name(posStrict)}
	}
}

func (g *G) expr() E {
	if g.Depth <= 0 {
		return g.atomExpr()
	}
	g.Depth--
	defer func() { g.Depth++ }()
	switch c := g.pick("expr.shape", 20); {
	case c < 6:
		return g.primary()
	case c < 11: // binary operator
		op := binOps[g.pick("expr.binop", len(binOps))]
		g.tag("op:" + op.text)
		l, r := g.expr(), g.expr()
		if g.rare("float.leading-dot", 15) {
			r = E{Frag: both(Lex{K: FLOAT, V: dotFloatSpellings[g.pick("float.dot", len(dotFloatSpellings))]})}
		}
		ls, rs := op.level, op.level-1
		if op.level == lvCmp {
			ls, rs = lvBitOr, lvBitOr
		}
		return E{Frag: cat(g.fit(l, ls), opFrag(op.text), g.fit(r, rs)), Level: op.level}
	case c < 13: // prefix
		if g.pick("expr.prefix", 4) == 0 {
			g.tag("op:NOT")
			return E{Frag: cat(k("NOT"), g.fit(g.expr(), lvNot)), Level: lvNot}
		}
		op := []string{"-", "+", "~"}[g.pick("expr.sign", 3)]
		g.tag("op:u" + op)
		// signs directly on numeric literals (folded into the literal by the parser) and sign chains
		num := func() E {
			if g.flip("expr.sign.float") {
				return E{Frag: g.floatLit()}
			}
			return E{Frag: g.intLit(), endsNum: true}
		}
		switch g.choose("expr.sign.operand", "expr", "expr", "number", "signed-number") {
		case "number":
			return E{Frag: cat(p(op), num().Frag), Level: lvUnary}
		case "signed-number":
			op2 := []string{"-", "+"}[g.pick("expr.sign2", 2)]
			return E{Frag: cat(p(op), p(op2), num().Frag), Level: lvUnary}
		}
		return E{Frag: cat(p(op), g.fit(g.expr(), lvUnary)), Level: lvUnary}
	case c < 14: // IS
		form := []string{"IS NULL", "IS NOT NULL", "IS TRUE", "IS NOT TRUE", "IS FALSE", "IS NOT FALSE"}[g.pick("expr.is", 6)]
		g.tag("op:" + form)
		return E{Frag: cat(g.fit(g.expr(), lvBitOr), k(form)), Level: lvCmp}
	case c < 15: // BETWEEN
		not := g.opt("expr.between.not", func() Frag { return k("NOT") })
		g.tag("op:BETWEEN")
		return E{Frag: cat(g.fit(g.expr(), lvBitOr), not, k("BETWEEN"), g.fit(g.expr(), lvBitOr), k("AND"), g.fit(g.expr(), lvBitOr)), Level: lvCmp}
	case c < 17: // IN
		not := g.opt("expr.in.not", func() Frag { return k("NOT") })
		left := g.fit(g.expr(), lvBitOr)
		var right Frag
		switch g.choose("expr.in", "values", "unnest", "subquery") {
		case "values":
			right = cat(p("("), g.commaList("expr.in.values", 1, 4, func(int) Frag { return g.Expr() }), p(")"))
		case "unnest":
			right = cat(k("UNNEST"), pl("("), g.Expr(), p(")"))
		default:
			right = cat(p("("), g.QueryExpr(), p(")"))
		}
		return E{Frag: cat(left, not, k("IN"), right), Level: lvCmp}
	case c < 19: // postfix
		base := g.expr()
		if g.flip("expr.postfix.index") {
			var idx Frag
			if g.flip("expr.index.keyword") {
				kw := g.choose("expr.index.kw", "OFFSET", "ORDINAL", "SAFE_OFFSET", "SAFE_ORDINAL")
				idx = cat(k(kw), pl("("), g.Expr(), p(")"))
			} else {
				idx = g.Expr()
			}
			return E{Frag: cat(g.fit(base, lvPostfix), pl("["), idx, pl("]")), Level: lvPostfix}
		}
		if base.endsNum && base.Level <= lvPostfix {
			if g.flip("expr.field-on-number.bare") {
				return E{Frag: cat(g.fit(base, lvPostfix), p("."), g.safeField()), Level: lvPostfix}
			}
			base = paren(base)
		}
		return E{Frag: cat(g.fit(base, lvPostfix), pl("."), g.safeField()), Level: lvPostfix}
	default:
		return E{Frag: paren(g.expr()).Frag}
	}
}

func (g *G) funcName() Frag {
	switch g.pick("call.name", 6) {
	case 0:
		return cat(idLex("SAFE"), pl("."), both(Lex{K: ID, V: "DIVIDE", Loose: true}))
	case 1:
		return cat(idLex("NET"), pl("."), both(Lex{K: ID, V: "HOST", Loose: true}))
	case 2:
		return idLex([]string{"ARRAY_AGG", "STRING_AGG", "DATE_ADD", "COUNT", "SUM", "ANY_VALUE", "GET_NEXT_SEQUENCE_VALUE", "ARRAY_FILTER"}[g.pick("call.builtin", 8)])
	default:
		return g.plain()
	}
}

// hint is "@" "{" path "=" e {, ...} "}".
func (g *G) hint(tag string) Frag {
	g.tag(tag + ".hint")
	return cat(p("@"), pl("{"), g.commaList(tag+".hint.records", 1, 3, func(int) Frag {
		return cat(g.path("hint.key", 1, 2), p("="), g.hintValue())
	}), p("}"))
}

func (g *G) hintValue() Frag {
	switch g.pick("hint.value", 5) {
	case 0:
		return k("TRUE")
	case 1:
		return g.intLit()
	case 2:
		return g.strLit()
	case 3:
		return g.name(posStrict)
	default:
		return g.Expr()
	}
}

// primary generates every primary expression form.
func (g *G) primary() E {
	kind := g.choose("primary",
		"null", "bool", "int", "float", "string", "bytes", "typed-literal", "param", "ident", "path", "call", "countstar", "cast", "extract", "case",
		"if", "with", "replace_fields", "new", "new-braced", "braced", "array", "array-subquery", "tuple", "struct", "typed-struct", "scalar-subquery", "exists", "paren")
	atom := func(f Frag) E { return E{Frag: f} }
	switch kind {
	case "null":
		return atom(k("NULL"))
	case "bool":
		return atom(k([]string{"TRUE", "FALSE"}[g.pick("bool", 2)]))
	case "int":
		return E{Frag: g.intLit(), endsNum: true}
	case "float":
		return atom(g.floatLit())
	case "string":
		return atom(g.strLit())
	case "bytes":
		return atom(g.bytesLit())
	case "typed-literal":
		return atom(cat(k(g.choose("typed-literal", "DATE", "TIMESTAMP", "NUMERIC", "JSON")), g.strLit()))
	case "param":
		return atom(g.param())
	case "ident":
		return atom(g.name(posStrict))
	case "path":
		return atom(g.path("expr.path", 2, 4))
	case "call":
		return atom(g.call())
	case "countstar":
		return atom(cat(idLex("COUNT"), pl("("), p("*"), p(")")))
	case "cast":
		return atom(cat(k(g.choose("cast", "CAST", "SAFE_CAST")), pl("("), g.Expr(), k("AS"), g.Type(), p(")")))
	case "extract":
		part := idLex([]string{"YEAR", "DAY", "DAYOFWEEK", "month", "ISOWEEK", "NANOSECOND", "DATE"}[g.pick("extract.part", 7)])
		return atom(cat(k("EXTRACT"), pl("("), part, k("FROM"), g.Expr(),
			g.opt("extract.at-time-zone", func() Frag { return cat(k("AT TIME ZONE"), g.Expr()) }), p(")")))
	case "case":
		var f Frag
		f = k("CASE")
		if g.flip("case.operand") {
			f = cat(f, g.Expr())
		}
		n := g.count("case.whens", 1, 3)
		for i := 0; i < n; i++ {
			f = cat(f, k("WHEN"), g.Expr(), k("THEN"), g.Expr())
		}
		f = cat(f, g.opt("case.else", func() Frag { return cat(k("ELSE"), g.Expr()) }), k("END"))
		return atom(f)
	case "if":
		return atom(cat(k("IF"), pl("("), g.Expr(), p(","), g.Expr(), p(","), g.Expr(), p(")")))
	case "with":
		if g.NoWithExpr {
			return atom(g.param())
		}
		nv := g.count("withexpr.vars", 1, 3)
		vars := g.list(nv, p(","), func(int) Frag { return cat(g.name(posStrict), k("AS"), g.Expr()) })
		if nv > 0 {
			vars = cat(vars, p(","))
		}
		return atom(cat(k("WITH"), pl("("), vars, g.Expr(), p(")")))
	case "replace_fields":
		return atom(cat(k("REPLACE_FIELDS"), pl("("), g.Expr(), p(","), g.commaList("replace_fields.args", 1, 3, func(int) Frag {
			return cat(g.Expr(), k("AS"), g.path("replace_fields.path", 1, 3))
		}), p(")")))
	case "new":
		return atom(cat(k("NEW"), g.typePath(), pl("("), g.commaList("new.args", 0, 3, func(int) Frag {
			return cat(g.Expr(), g.opt("new.arg.as", func() Frag { return cat(k("AS"), g.name(posSafe)) }))
		}), p(")")))
	case "new-braced":
		return atom(cat(k("NEW"), g.typePath(), g.braced()))
	case "braced":
		return atom(g.braced())
	case "array":
		var head Frag
		switch g.choose("array.form", "bare", "ARRAY", "typed") {
		case "ARRAY":
			head = k("ARRAY")
		case "typed":
			head = cat(k("ARRAY"), pl("<"), g.Type(), pl(">"))
		}
		return atom(cat(head, pl("["), g.commaList("array.values", 0, 3, func(int) Frag { return g.Expr() }), p("]")))
	case "array-subquery":
		return atom(cat(k("ARRAY"), pl("("), g.DirectQuery(), p(")")))
	case "tuple":
		return atom(cat(p("("), g.commaList("tuple.values", 2, 4, func(int) Frag { return g.Expr() }), p(")")))
	case "struct":
		return atom(cat(k("STRUCT"), pl("("), g.commaList("struct.values", 0, 3, func(int) Frag {
			return cat(g.Expr(), g.opt("struct.arg.as", func() Frag { return cat(k("AS"), g.name(posSafe)) }))
		}), p(")")))
	case "typed-struct":
		n := g.count("typedstruct.fields", 0, 3)
		fields := cat(k("STRUCT"), pl("<"), g.list(n, p(","), func(int) Frag { return g.structField() }), pl(">"))
		return atom(cat(fields, pl("("), g.list(n, p(","), func(int) Frag { return g.Expr() }), p(")")))
	case "scalar-subquery":
		return atom(cat(p("("), g.QueryExpr(), p(")")))
	case "exists":
		return atom(cat(k("EXISTS"), pl("("), g.DirectQuery(), p(")")))
	default:
		return paren(g.expr())
	}
}

func (g *G) typePath() Frag {
	n := g.count("typepath", 1, 3)
	var f Frag
	switch rapid.IntRange(0, 15).Draw(g.T, g.label("typepath.first")) {
	case 0:
		g.tag("typepath.unicode-confusable")
		f = both(Lex{K: ID, V: confusableNames[rapid.IntRange(0, len(confusableNames)-1).Draw(g.T, g.label("typepath.confusable"))]})
	default:
		f = g.plain()
	}
	for i := 1; i < n; i++ {
		if rapid.IntRange(0, 3).Draw(g.T, g.label("typepath.afterdot")) == 0 {
			f = cat(f, pl("."), g.afterDot())
			continue
		}
		x := g.plain()
		x.W[0].Loose, x.C[0].Loose = true, true
		f = cat(f, pl("."), x)
	}
	return f
}

// braced is "{" {field [","]} "}"; commas are optional in W, always present in C.
func (g *G) braced() Frag {
	n := g.count("braced.fields", 0, 3)
	f := p("{")
	for i := 0; i < n; i++ {
		var val Frag
		if g.Depth > 0 && g.flip("braced.nested") {
			g.Depth--
			val = g.braced()
			g.Depth++
		} else {
			val = cat(pl(":"), g.Expr())
		}
		f = cat(f, g.name(posSafe), val)
		last := i == n-1
		switch {
		case last:
			if g.flip("braced.trailing-comma") {
				f = cat(f, wOnly(p(",")))
			}
		case g.flip("braced.comma"):
			f = cat(f, p(","))
		default:
			f = cat(f, cOnly(p(",")))
		}
	}
	return cat(f, p("}"))
}

func (g *G) call() Frag {
	f := cat(g.funcName(), pl("("))
	nargs := g.count("call.args", 0, 3)
	distinct := nargs > 0 && g.flip("call.distinct")
	if distinct {
		f = cat(f, k("DISTINCT"))
	}
	f = cat(f, g.list(nargs, p(","), func(int) Frag { return g.callArg() }))
	nnamed := 0
	if g.flip("call.named") {
		nnamed = g.count("call.named.n", 1, 2)
		if nargs > 0 {
			f = cat(f, p(","))
		}
		f = cat(f, g.list(nnamed, p(","), func(int) Frag { return cat(g.name(posStrict), p("=>"), g.Expr()) }))
	}
	if nargs > 0 && nnamed == 0 {
		switch g.choose("call.nulls", "none", "none", "IGNORE", "RESPECT") {
		case "IGNORE":
			f = cat(f, k("IGNORE NULLS"))
		case "RESPECT":
			f = cat(f, k("RESPECT NULLS"))
		}
		if g.rare("call.having", 4) {
			f = cat(f, k("HAVING"), k(g.choose("call.having.kind", "MAX", "MIN")), g.Expr())
		}
	}
	f = cat(f, p(")"))
	if g.rare("call.hint", 6) {
		f = cat(f, g.hint("call"))
	}
	return f
}

func (g *G) callArg() Frag {
	switch g.choose("call.arg", "expr", "expr", "expr", "interval", "sequence", "lambda1", "lambdaN") {
	case "interval":
		unit := idLex([]string{"DAY", "HOUR", "month", "YEAR", "MICROSECOND"}[g.pick("interval.unit", 5)])
		return cat(k("INTERVAL"), g.Expr(), unit)
	case "sequence":
		return cat(k("SEQUENCE"), g.path("sequence.path", 1, 2))
	case "lambda1":
		return cat(g.plain(), p("->"), g.Expr())
	case "lambdaN":
		return cat(p("("), g.commaList("lambda.params", 1, 3, func(int) Frag { return g.plain() }), p(")"), p("->"), g.Expr())
	}
	return g.Expr()
}

// ---- types ----

var simpleTypeNames = []string{"BOOL", "INT64", "FLOAT32", "FLOAT64", "DATE", "TIMESTAMP", "NUMERIC", "STRING", "BYTES", "JSON", "TOKENLIST"}

// Type is a (query-level) type.
func (g *G) Type() Frag {
	if g.Depth <= 0 {
		return k(simpleTypeNames[g.pick("type.simple", len(simpleTypeNames))])
	}
	g.Depth--
	defer func() { g.Depth++ }()
	switch g.choose("type", "simple", "simple", "array", "struct", "named") {
	case "array":
		return cat(k("ARRAY"), pl("<"), g.Type(), pl(">"))
	case "struct":
		return cat(k("STRUCT"), pl("<"), g.commaList("structtype.fields", 0, 3, func(int) Frag { return g.structField() }), pl(">"))
	case "named":
		return g.typePath()
	}
	return k(simpleTypeNames[g.pick("type.simple", len(simpleTypeNames))])
}

func (g *G) structField() Frag {
	if g.flip("structfield.name") {
		return cat(g.plain(), g.Type())
	}
	return g.Type()
}

var _ = rapid.Bool
