package gen

// ---- queries ----

// QueryStatement is [hint] query.
func (g *G) QueryStatement() Frag {
	var f Frag
	if g.rare("query.stmt-hint", 5) {
		f = g.hint("stmt")
	}
	return cat(f, g.query(true))
}

// QueryExpr is a query inside parentheses where memefish has to decide by look-ahead between a
// subquery and a parenthesised expression / join (scalar subquery, IN subquery, table subquery).
// The shape of its beginning is drawn explicitly so that each look-ahead class is tagged.
func (g *G) QueryExpr() Frag {
	if g.Depth <= 0 {
		return cat(k("SELECT"), g.intLit())
	}
	switch g.choose("subquery.la", "select-first", "select-first", "select-first", "select-first", "with-first", "from-first", "paren-first") {
	case "with-first":
		g.Depth--
		defer func() { g.Depth++ }()
		return cat(k("WITH"), g.commaList("query.ctes", 1, 2, func(int) Frag {
			return cat(g.name(posStrict), k("AS"), p("("), g.query(false), p(")"))
		}), g.selectOnly())
	case "from-first":
		g.Depth--
		defer func() { g.Depth++ }()
		return cat(k("FROM"), g.fromBody(), g.pipes("query.from-pipes", 0))
	case "paren-first":
		g.Depth--
		defer func() { g.Depth++ }()
		first := cat(p("("), g.queryStartingWithSelect(), p(")"))
		switch g.choose("subquery.la.paren-first", "setop", "order-limit", "other") {
		case "setop":
			op := g.choose("setop", "UNION ALL", "UNION DISTINCT", "INTERSECT ALL", "INTERSECT DISTINCT", "EXCEPT ALL", "EXCEPT DISTINCT")
			return cat(first, k(op), g.selectOnly())
		case "order-limit":
			if g.flip("subquery.la.paren-first.order") {
				return cat(first, g.orderBy("query"))
			}
			return cat(first, k("LIMIT"), g.intValue("limit"))
		}
		switch g.choose("subquery.la.paren-first.other", "nothing", "for-update", "pipe") {
		case "for-update":
			return cat(first, k("FOR UPDATE"))
		case "pipe":
			return cat(first, g.pipes("query.pipes.n", 1))
		}
		return first
	}
	return g.queryStartingWithSelect()
}

// CTEQuery is a query in a position that is parsed directly as a query (CTE body, view body,
// EXISTS / ARRAY subquery, INSERT input).
func (g *G) DirectQuery() Frag { return g.query(false) }

func (g *G) selectOnly() Frag {
	f, _, _ := g.selectStmt()
	return f
}

// queryStartingWithSelect := select [setop ...] [ORDER BY] [LIMIT] ...
func (g *G) queryStartingWithSelect() Frag {
	g.Depth--
	defer func() { g.Depth++ }()
	f := g.selectOnly()
	if g.rare("query.compound", 5) {
		op := g.choose("setop", "UNION ALL", "UNION DISTINCT", "INTERSECT ALL", "INTERSECT DISTINCT", "EXCEPT ALL", "EXCEPT DISTINCT")
		n := g.count("setop.operands", 1, 3)
		for i := 0; i < n; i++ {
			pf, _, _ := g.queryPrimary(false)
			f = cat(f, k(op), pf)
		}
	}
	if g.rare("query.orderby", 4) {
		f = cat(f, g.orderBy("query"))
	}
	if g.rare("query.limit", 4) {
		f = cat(f, k("LIMIT"), g.intValue("limit"))
		if g.flip("query.limit.offset") {
			f = cat(f, k("OFFSET"), g.intValue("offset"))
		}
	}
	if g.rare("query.for-update", 10) {
		f = cat(f, k("FOR UPDATE"))
	}
	if g.rare("query.pipes", 6) {
		f = cat(f, g.pipes("query.pipes.n", 1))
	}
	return f
}

// query := [WITH ctes] body [ORDER BY] [LIMIT [OFFSET]] [FOR UPDATE] {pipe}
func (g *G) query(top bool) Frag {
	if g.Depth <= 0 {
		return cat(k("SELECT"), g.intLit())
	}
	g.Depth--
	defer func() { g.Depth++ }()
	var f Frag
	if g.rare("query.with", 5) {
		f = cat(k("WITH"), g.commaList("query.ctes", 1, 3, func(int) Frag {
			return cat(g.name(posStrict), k("AS"), p("("), g.query(false), p(")"))
		}))
	}
	body, isFrom, lastSelectList := g.queryBody()
	f = cat(f, body)
	if isFrom {
		// a FROM query takes pipe operators only
		return cat(f, g.pipes("query.from-pipes", 0))
	}
	suffix := false
	if g.rare("query.orderby", 4) {
		f = cat(f, g.orderBy("query"))
		suffix = true
	}
	if g.rare("query.limit", 4) {
		f = cat(f, k("LIMIT"), g.intValue("limit"))
		if g.flip("query.limit.offset") {
			f = cat(f, k("OFFSET"), g.intValue("offset"))
		}
		suffix = true
	}
	if g.rare("query.for-update", 10) {
		f = cat(f, k("FOR UPDATE"))
		suffix = true
	}
	if g.rare("query.pipes", 6) {
		f = cat(f, g.pipes("query.pipes.n", 1))
		suffix = true
	}
	if top && !suffix && lastSelectList && g.rare("select.trailing-comma-at-end", 8) {
		// documented trailing comma of a select list, here at the very end of the statement
		f = cat(f, wOnly(p(",")))
	}
	return f
}

func (g *G) pipes(tag string, min int) Frag {
	n := g.count(tag, min, 3)
	var f Frag
	for i := 0; i < n; i++ {
		if g.flip("pipe.where") {
			f = cat(f, p("|>"), k("WHERE"), g.Expr())
		} else {
			f = cat(f, p("|>"), k("SELECT"), g.selectHead(), g.selectList(false))
		}
	}
	return f
}

func (g *G) orderBy(tag string) Frag {
	return cat(k("ORDER BY"), g.commaList(tag+".orderby.items", 1, 3, func(int) Frag {
		f := g.Expr()
		if g.rare("orderby.collate", 5) {
			if g.flip("orderby.collate.param") {
				f = cat(f, k("COLLATE"), g.param())
			} else {
				f = cat(f, k("COLLATE"), g.strLit())
			}
		}
		switch g.choose("orderby.dir", "none", "ASC", "DESC") {
		case "ASC":
			f = cat(f, k("ASC"))
		case "DESC":
			f = cat(f, k("DESC"))
		}
		return f
	}))
}

// intValue := int | param | CAST(int|param AS INT64)
func (g *G) intValue(tag string) Frag {
	switch g.choose(tag+".intvalue", "int", "param", "cast") {
	case "param":
		return g.param()
	case "cast":
		var v Frag
		if g.flip(tag + ".intvalue.cast.param") {
			v = g.param()
		} else {
			v = g.intLit()
		}
		return cat(k("CAST"), pl("("), v, k("AS INT64"), p(")"))
	}
	return g.intLit()
}

// queryBody := primary | primary setop primary {same setop primary}
// It reports whether the body is a bare FROM query and whether it ends with a select list.
func (g *G) queryBody() (f Frag, isFrom bool, endsWithSelectList bool) {
	if !g.rare("query.compound", 5) {
		return g.queryPrimary(true)
	}
	op := g.choose("setop", "UNION ALL", "UNION DISTINCT", "INTERSECT ALL", "INTERSECT DISTINCT", "EXCEPT ALL", "EXCEPT DISTINCT")
	n := g.count("setop.operands", 2, 4)
	for i := 0; i < n; i++ {
		if i > 0 {
			f = cat(f, k(op))
		}
		pf, _, _ := g.queryPrimary(false)
		f = cat(f, pf)
	}
	return f, false, false
}

func (g *G) queryPrimary(allowFrom bool) (f Frag, isFrom bool, endsWithSelectList bool) {
	alts := []string{"select", "select", "select", "paren"}
	if allowFrom {
		alts = append(alts, "from")
	}
	switch g.choose("query.primary", alts...) {
	case "paren":
		return cat(p("("), g.query(false), p(")")), false, false
	case "from":
		return cat(k("FROM"), g.fromBody()), true, false
	}
	return g.selectStmt()
}

func (g *G) selectHead() Frag {
	var f Frag
	switch g.choose("select.quantifier", "none", "none", "ALL", "DISTINCT") {
	case "ALL":
		f = k("ALL")
	case "DISTINCT":
		f = k("DISTINCT")
	}
	switch g.choose("select.as", "none", "none", "none", "STRUCT", "VALUE", "type") {
	case "STRUCT":
		f = cat(f, k("AS STRUCT"))
	case "VALUE":
		f = cat(f, k("AS VALUE"))
	case "type":
		f = cat(f, k("AS"), g.typePath())
	}
	return f
}

// selectList := item {, item} ; with allowTrailing a trailing comma may be written (W only).
func (g *G) selectList(allowTrailing bool) Frag {
	f := g.commaList("select.items", 1, 4, func(int) Frag { return g.selectItem() })
	if allowTrailing && g.rare("select.trailing-comma-before-from", 6) {
		f = cat(f, wOnly(p(",")))
	}
	return f
}

func (g *G) starModifiers() Frag {
	var f Frag
	if g.rare("star.except", 3) {
		f = cat(f, k("EXCEPT"), p("("), g.commaList("star.except.cols", 1, 3, func(int) Frag { return g.name(posSafe) }), p(")"))
	}
	if g.rare("star.replace", 3) {
		f = cat(f, k("REPLACE"), p("("), g.commaList("star.replace.items", 1, 3, func(int) Frag {
			return cat(g.Expr(), k("AS"), g.name(posSafe))
		}), p(")"))
	}
	return f
}

func (g *G) selectItem() Frag {
	switch g.choose("select.item", "expr", "expr", "alias", "implicit-alias", "star", "dotstar") {
	case "star":
		return cat(p("*"), g.starModifiers())
	case "dotstar":
		var base Frag
		if g.flip("dotstar.path") {
			base = g.path("dotstar.path.n", 1, 3)
		} else {
			base = paren(g.expr()).Frag
		}
		return cat(base, pl("."), pl("*"), g.starModifiers())
	case "alias":
		return cat(g.Expr(), k("AS"), g.name(posSafe))
	case "implicit-alias":
		return cat(g.aliasableExpr(), g.implicitAlias())
	}
	return g.Expr()
}

// aliasableExpr is an expression after which a bare identifier is unambiguously an alias.
func (g *G) aliasableExpr() Frag {
	return g.Expr()
}

// implicitAlias is an alias written without AS: plain or back-quoted names only.
func (g *G) implicitAlias() Frag {
	f := g.name(posStrict)
	return f
}

func (g *G) selectStmt() (f Frag, isFrom bool, endsWithSelectList bool) {
	f = cat(k("SELECT"), g.selectHead())
	hasFrom := g.flip("select.from")
	f = cat(f, g.selectList(hasFrom))
	endsWithSelectList = true
	if hasFrom {
		f = cat(f, k("FROM"), g.fromBody())
		endsWithSelectList = false
	}
	if !hasFrom {
		// WHERE / GROUP BY / HAVING are only generated together with FROM
		return f, false, endsWithSelectList
	}
	if g.rare("select.where", 3) {
		f = cat(f, k("WHERE"), g.Expr())
		endsWithSelectList = false
	}
	if g.rare("select.groupby", 4) {
		f = cat(f, k("GROUP BY"), g.commaList("groupby.items", 1, 3, func(int) Frag { return g.Expr() }))
		endsWithSelectList = false
	}
	if g.rare("select.having", 5) {
		f = cat(f, k("HAVING"), g.Expr())
		endsWithSelectList = false
	}
	return f, false, endsWithSelectList
}

// ---- FROM ----

// fromBody := source { "," source | join }
func (g *G) fromBody() Frag {
	f := g.tableSource()
	n := g.count("from.joins", 0, 3)
	for i := 0; i < n; i++ {
		if g.rare("from.comma-join", 4) {
			f = cat(f, p(","), g.tableSource())
			continue
		}
		f = cat(f, g.join(i))
	}
	return f
}

func (g *G) alias(tag string) Frag {
	switch g.choose(tag+".alias", "none", "AS", "implicit") {
	case "AS":
		return cat(k("AS"), g.name(posSafe))
	case "implicit":
		return g.name(posStrict)
	}
	return empty()
}

func (g *G) tableSample(tag string) Frag {
	if !g.rare(tag+".tablesample", 5) {
		return empty()
	}
	method := g.choose("tablesample.method", "BERNOULLI", "RESERVOIR")
	var v Frag
	switch g.choose("tablesample.value", "int", "float", "param", "cast") {
	case "float":
		v = g.floatLit()
	case "param":
		v = g.param()
	case "cast":
		var x Frag
		switch g.pick("tablesample.cast.arg", 3) {
		case 0:
			x = g.intLit()
		case 1:
			x = g.floatLit()
		default:
			x = g.param()
		}
		v = cat(k("CAST"), pl("("), x, k("AS"), k(g.choose("tablesample.cast.type", "INT64", "FLOAT64")), p(")"))
	default:
		v = g.intLit()
	}
	unit := g.choose("tablesample.unit", "PERCENT", "ROWS")
	return cat(k("TABLESAMPLE"), k(method), p("("), v, k(unit), p(")"))
}

func (g *G) withOffset(tag string) Frag {
	if !g.rare(tag+".with-offset", 3) {
		return empty()
	}
	return cat(k("WITH OFFSET"), g.alias(tag+".with-offset"))
}

func (g *G) tableSource() Frag {
	if g.Depth <= 0 {
		return g.plain()
	}
	switch g.choose("from.source", "table", "table", "path", "unnest", "subquery", "paren-join", "tvf") {
	case "path":
		f := g.path("from.path", 2, 3)
		if g.rare("from.path.hint", 5) {
			f = cat(f, g.hint("from.path"))
		}
		return cat(f, g.alias("from.path"), g.withOffset("from.path"), g.tableSample("from.path"))
	case "unnest":
		f := cat(k("UNNEST"), pl("("), g.Expr(), p(")"))
		if g.rare("from.unnest.hint", 5) {
			f = cat(f, g.hint("from.unnest"))
		}
		return cat(f, g.alias("from.unnest"), g.withOffset("from.unnest"), g.tableSample("from.unnest"))
	case "subquery":
		q := g.QueryExpr()
		return cat(p("("), q, p(")"), g.alias("from.subquery"), g.tableSample("from.subquery"))
	case "paren-join":
		g.Depth--
		f := cat(g.tableSource(), g.join(0))
		n := g.count("from.paren.joins", 0, 2)
		for i := 0; i < n; i++ {
			f = cat(f, g.join(i+1))
		}
		g.Depth++
		return cat(p("("), f, p(")"), g.tableSample("from.paren"))
	case "tvf":
		f := cat(g.tvfName(), pl("("), g.tvfArgs("tvf"), p(")"))
		if g.rare("from.tvf.hint", 5) {
			f = cat(f, g.hint("from.tvf"))
		}
		return cat(f, g.tableSample("from.tvf"))
	}
	f := g.name(posStrict)
	if g.rare("from.table.hint", 4) {
		f = cat(f, g.hint("from.table"))
	}
	return cat(f, g.alias("from.table"), g.tableSample("from.table"))
}

func (g *G) tvfName() Frag {
	if g.flip("tvf.path") {
		return cat(g.plain(), pl("."), both(Lex{K: ID, V: "PREDICT", Loose: true}))
	}
	return g.plain()
}

// tvfArgs := [arg {, arg}] [named {, named}]
func (g *G) tvfArgs(tag string) Frag {
	n := g.count(tag+".args", 0, 3)
	f := g.list(n, p(","), func(int) Frag {
		switch g.choose(tag+".arg", "expr", "expr", "TABLE", "MODEL") {
		case "TABLE":
			return cat(k("TABLE"), g.path(tag+".table.path", 1, 2))
		case "MODEL":
			return cat(k("MODEL"), g.path(tag+".model.path", 1, 2))
		}
		return g.Expr()
	})
	if tag == "tvf" && g.rare("tvf.named", 4) {
		if n > 0 {
			f = cat(f, p(","))
		}
		f = cat(f, g.commaList("tvf.named.n", 1, 2, func(int) Frag { return cat(g.name(posStrict), p("=>"), g.Expr()) }))
	}
	return f
}

// join := [type] [method] JOIN [hint] source [ON e | USING (...)]
func (g *G) join(i int) Frag {
	var f Frag
	kind := g.choose("join.type", "plain", "INNER", "CROSS", "FULL", "FULL OUTER", "LEFT", "LEFT OUTER", "RIGHT", "RIGHT OUTER")
	switch kind {
	case "plain":
		f = cOnly(k("INNER"))
	case "INNER", "CROSS":
		f = k(kind)
	case "FULL", "LEFT", "RIGHT":
		f = cat(k(kind), cOnly(k("OUTER")))
	default:
		f = k(kind)
	}
	switch g.choose("join.method", "none", "none", "none", "HASH", "LOOKUP") {
	case "HASH":
		f = cat(f, k("HASH"))
	case "LOOKUP":
		f = cat(f, k("LOOKUP"))
	}
	f = cat(f, k("JOIN"))
	if g.rare("join.hint", 5) {
		f = cat(f, g.hint("join"))
		if i >= 2 {
			g.tag("join.hint.on-third-or-later")
		}
	}
	f = cat(f, g.tableSource())
	if kind == "CROSS" {
		return f
	}
	if g.rare("join.using", 4) {
		return cat(f, k("USING"), p("("), g.commaList("join.using.cols", 1, 3, func(int) Frag { return g.name(posSafe) }), p(")"))
	}
	return cat(f, k("ON"), g.Expr())
}
