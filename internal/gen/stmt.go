package gen

// ---- DML / CALL ----

func (g *G) thenReturn() Frag {
	if !g.rare("dml.then-return", 3) {
		return empty()
	}
	f := k("THEN RETURN")
	if g.rare("dml.then-return.with-action", 3) {
		f = cat(f, k("WITH ACTION"), g.opt("dml.then-return.with-action.as", func() Frag { return cat(k("AS"), g.name(posSafe)) }))
	}
	g.NoWithExpr = true
	defer func() { g.NoWithExpr = false }()
	return cat(f, g.commaList("dml.then-return.items", 1, 3, func(int) Frag { return g.selectItem() }))
}

func (g *G) stmtHint() Frag {
	if g.rare("dml.stmt-hint", 6) {
		return g.hint("dml.stmt")
	}
	return empty()
}

func (g *G) tableHint() Frag {
	if g.rare("dml.table-hint", 5) {
		h := g.hint("dml.table")
		return h
	}
	return empty()
}

func (g *G) Insert() Frag {
	f := cat(g.stmtHint(), k("INSERT"))
	switch g.choose("insert.or", "none", "none", "UPDATE", "IGNORE") {
	case "UPDATE":
		f = cat(f, k("OR UPDATE"))
	case "IGNORE":
		f = cat(f, k("OR IGNORE"))
	}
	if g.flip("insert.into") {
		f = cat(f, k("INTO"))
	} else {
		f = cat(f, cOnly(k("INTO")))
	}
	f = cat(f, g.path("insert.table", 1, 2), g.tableHint())
	ncols := g.count("insert.columns", 1, 3)
	f = cat(f, p("("), g.list(ncols, p(","), func(int) Frag { return g.name(posSafe) }), p(")"))
	if g.flip("insert.values") {
		f = cat(f, k("VALUES"), g.commaList("insert.rows", 1, 3, func(int) Frag {
			return cat(p("("), g.list(ncols, p(","), func(int) Frag {
				if g.rare("insert.default", 5) {
					return k("DEFAULT")
				}
				return g.Expr()
			}), p(")"))
		}))
	} else {
		f = cat(f, g.query(false))
	}
	return cat(f, g.thenReturn())
}

func (g *G) Delete() Frag {
	f := cat(g.stmtHint(), k("DELETE"))
	if g.flip("delete.from") {
		f = cat(f, k("FROM"))
	} else {
		f = cat(f, cOnly(k("FROM")))
	}
	f = cat(f, g.path("delete.table", 1, 2), g.tableHint(), g.alias("delete"))
	return cat(f, k("WHERE"), g.Expr(), g.thenReturn())
}

func (g *G) Update() Frag {
	f := cat(g.stmtHint(), k("UPDATE"), g.path("update.table", 1, 2), g.tableHint(), g.alias("update"), k("SET"))
	f = cat(f, g.commaList("update.items", 1, 3, func(int) Frag {
		var v Frag
		if g.rare("update.default", 5) {
			v = k("DEFAULT")
		} else {
			v = g.Expr()
		}
		return cat(g.path("update.item.path", 1, 3), p("="), v)
	}))
	return cat(f, k("WHERE"), g.Expr(), g.thenReturn())
}

func (g *G) Call() Frag {
	return cat(k("CALL"), g.path("call.proc", 1, 2), pl("("), g.tvfArgs("callstmt"), p(")"))
}

// ---- DDL helpers ----

func (g *G) ifNotExists(tag string) Frag {
	return g.opt(tag+".if-not-exists", func() Frag { return k("IF NOT EXISTS") })
}

func (g *G) ifExists(tag string) Frag {
	return g.opt(tag+".if-exists", func() Frag { return k("IF EXISTS") })
}

func (g *G) optionValue() Frag {
	switch g.choose("option.value", "true", "false", "null", "int", "string", "array", "float", "ident") {
	case "true":
		return k("TRUE")
	case "false":
		return k("FALSE")
	case "null":
		return k("NULL")
	case "int":
		return g.intLit()
	case "float":
		return g.floatLit()
	case "array":
		// all three spellings of an array literal; elements of mixed literal kinds, now and then a nested array
		elem := func(int) Frag {
			switch g.choose("option.array.elem", "string", "string", "int", "true", "null", "nested") {
			case "int":
				return g.intLit()
			case "true":
				return k("TRUE")
			case "null":
				return k("NULL")
			case "nested":
				return cat(k("ARRAY"), pl("["), g.strLit(), p("]"))
			}
			return g.strLit()
		}
		body := cat(pl("["), g.commaList("option.array", 0, 3, elem), p("]"))
		switch g.choose("option.array.form", "bare", "bare", "ARRAY", "typed") {
		case "ARRAY":
			return cat(k("ARRAY"), body)
		case "typed":
			return cat(k("ARRAY"), pl("<"), k("STRING"), pl(">"), body)
		}
		return cat(p("["), g.commaList("option.array", 0, 2, func(int) Frag { return g.strLit() }), p("]"))
	case "ident":
		return g.plain()
	}
	return g.strLit()
}

func (g *G) options(tag string) Frag {
	g.tag(tag + ".options")
	return cat(k("OPTIONS"), p("("), g.commaList("options.records", 1, 3, func(int) Frag {
		return cat(g.plain(), p("="), g.optionValue())
	}), p(")"))
}

func (g *G) optOptions(tag string) Frag {
	if g.flip(tag + ".options?") {
		return g.options(tag)
	}
	return empty()
}

func (g *G) onDelete(tag string) Frag {
	switch g.choose(tag+".on-delete", "none", "CASCADE", "NO ACTION") {
	case "CASCADE":
		return k("ON DELETE CASCADE")
	case "NO ACTION":
		return k("ON DELETE NO ACTION")
	}
	return empty()
}

func (g *G) identList(tag string, min, max int) Frag {
	return cat(p("("), g.commaList(tag, min, max, func(int) Frag { return g.name(posSafe) }), p(")"))
}

func (g *G) scalarSchemaType() Frag {
	switch g.choose("schematype", "scalar", "scalar", "sized", "sized-max", "named") {
	case "sized":
		return cat(k(g.choose("schematype.sized", "STRING", "BYTES")), pl("("), g.intLit(), p(")"))
	case "sized-max":
		return cat(k(g.choose("schematype.sized", "STRING", "BYTES")), pl("("), k("MAX"), p(")"))
	case "named":
		return g.typePath()
	}
	return k([]string{"BOOL", "INT64", "FLOAT32", "FLOAT64", "DATE", "TIMESTAMP", "NUMERIC", "JSON", "TOKENLIST"}[g.pick("schematype.scalar", 9)])
}

func (g *G) schemaType() Frag {
	if g.rare("schematype.array", 4) {
		f := cat(k("ARRAY"), pl("<"), g.scalarSchemaType(), pl(">"))
		if g.rare("schematype.array.args", 4) {
			f = cat(f, pl("("), g.commaList("schematype.array.named", 1, 2, func(int) Frag { return cat(g.plain(), p("=>"), g.intLit()) }), p(")"))
		}
		return f
	}
	return g.scalarSchemaType()
}

func (g *G) seqParam() Frag {
	switch g.choose("seqparam", "BIT_REVERSED_POSITIVE", "SKIP RANGE", "START COUNTER WITH") {
	case "SKIP RANGE":
		return cat(k("SKIP RANGE"), g.intLit(), p(","), g.intLit())
	case "START COUNTER WITH":
		return cat(k("START COUNTER WITH"), g.intLit())
	}
	return k("BIT_REVERSED_POSITIVE")
}

func (g *G) seqParams(tag string, min int) Frag {
	n := g.count(tag, min, 3)
	var f Frag
	for i := 0; i < n; i++ {
		f = cat(f, g.seqParam())
	}
	return f
}

func (g *G) columnDef() Frag {
	f := cat(g.name(posStrict), g.schemaType())
	if g.flip("column.not-null") {
		f = cat(f, k("NOT NULL"))
	}
	switch g.choose("column.default", "none", "none", "DEFAULT", "AS", "AS STORED", "IDENTITY", "IDENTITY()", "AUTO_INCREMENT") {
	case "DEFAULT":
		f = cat(f, k("DEFAULT"), p("("), g.Expr(), p(")"))
	case "AS":
		f = cat(f, k("AS"), p("("), g.Expr(), p(")"))
	case "AS STORED":
		f = cat(f, k("AS"), p("("), g.Expr(), p(")"), k("STORED"))
	case "IDENTITY":
		f = cat(f, k("GENERATED BY DEFAULT AS IDENTITY"))
	case "IDENTITY()":
		f = cat(f, k("GENERATED BY DEFAULT AS IDENTITY"), p("("), g.seqParams("column.identity.params", 0), p(")"))
	case "AUTO_INCREMENT":
		f = cat(f, k("AUTO_INCREMENT"))
	}
	if g.rare("column.hidden", 5) {
		f = cat(f, k("HIDDEN"))
	}
	if g.rare("column.primary-key", 5) {
		f = cat(f, k("PRIMARY KEY"))
	}
	if g.rare("column.options", 4) {
		f = cat(f, g.options("column"))
	}
	return f
}

func (g *G) foreignKey() Frag {
	f := cat(k("FOREIGN KEY"), g.identList("fk.columns", 1, 3), k("REFERENCES"), g.path("fk.table", 1, 2), g.identList("fk.refcolumns", 1, 3), g.onDelete("fk"))
	switch g.choose("fk.enforcement", "none", "ENFORCED", "NOT ENFORCED") {
	case "ENFORCED":
		f = cat(f, k("ENFORCED"))
	case "NOT ENFORCED":
		f = cat(f, k("NOT ENFORCED"))
	}
	return f
}

func (g *G) constraint() Frag {
	var f Frag
	if g.flip("constraint.named") {
		f = cat(k("CONSTRAINT"), g.name(posStrict))
	}
	if g.flip("constraint.check") {
		return cat(f, k("CHECK"), p("("), g.Expr(), p(")"))
	}
	return cat(f, g.foreignKey())
}

func (g *G) indexKey() Frag {
	f := g.name(posSafe)
	switch g.choose("indexkey.dir", "none", "ASC", "DESC") {
	case "ASC":
		f = cat(f, k("ASC"))
	case "DESC":
		f = cat(f, k("DESC"))
	}
	return f
}

func (g *G) rowDeletionPolicy() Frag {
	return cat(k("ROW DELETION POLICY"), p("("), k("OLDER_THAN"), p("("), g.name(posSafe), p(","), k("INTERVAL"), g.intLit(), k("DAY"), p(")"), p(")"))
}

func (g *G) interleaveInParent(tag string) Frag {
	f := k("INTERLEAVE IN")
	if g.flip(tag + ".parent") {
		return cat(f, k("PARENT"), g.path(tag+".table", 1, 2), g.onDelete(tag))
	}
	if g.Relaxed && g.flip(tag+".on-delete-without-parent#relaxed") {
		// not documented (ON DELETE belongs to the PARENT form) but accepted by memefish
		return cat(f, g.path(tag+".table", 1, 2), g.onDelete(tag))
	}
	return cat(f, g.path(tag+".table", 1, 2))
}

func (g *G) CreateTable() Frag {
	head := cat(k("CREATE TABLE"), g.ifNotExists("create-table"), g.path("create-table.name", 1, 2), p("("))
	n := g.count("create-table.elements", 0, 5)
	var cols, cons, syns []Frag
	var written Frag
	for i := 0; i < n; i++ {
		var e Frag
		switch g.choose("create-table.element", "column", "column", "column", "constraint", "synonym") {
		case "constraint":
			e = g.constraint()
			cons = append(cons, e)
		case "synonym":
			e = cat(k("SYNONYM"), p("("), g.name(posSafe), p(")"))
			syns = append(syns, e)
		default:
			e = g.columnDef()
			cols = append(cols, e)
		}
		if i > 0 {
			written.W = append(written.W, Lex{K: PUNCT, V: ","})
		}
		written.W = append(written.W, e.W...)
	}
	if n > 0 && g.rare("create-table.trailing-comma", 4) {
		written.W = append(written.W, Lex{K: PUNCT, V: ","})
	}
	// canonical: columns, then constraints, then synonyms (stable within a kind)
	first := true
	for _, grp := range [][]Frag{cols, cons, syns} {
		for _, e := range grp {
			if !first {
				written.C = append(written.C, Lex{K: PUNCT, V: ","})
			}
			first = false
			written.C = append(written.C, e.C...)
		}
	}
	if len(cols) > 0 && (len(cons) > 0 || len(syns) > 0) {
		g.tag("create-table.mixed-element-kinds")
	}
	f := cat(head, written, p(")"))
	if g.flip("create-table.primary-key") {
		f = cat(f, k("PRIMARY KEY"), p("("), g.commaList("create-table.primary-key.keys", 0, 3, func(int) Frag { return g.indexKey() }), p(")"))
	}
	if g.rare("create-table.interleave", 3) {
		f = cat(f, p(","), g.interleaveInParent("create-table.interleave"))
	}
	if g.rare("create-table.row-deletion-policy", 4) {
		f = cat(f, p(","), g.rowDeletionPolicy())
	}
	if g.rare("create-table.options", 5) {
		f = cat(f, p(","), g.options("create-table"))
	}
	return f
}

func (g *G) AlterTable() Frag {
	f := cat(k("ALTER TABLE"), g.path("alter-table.name", 1, 2))
	switch g.choose("alter-table", "add-column", "drop-column", "add-constraint", "drop-constraint", "add-synonym", "drop-synonym", "rename-to",
		"add-rdp", "replace-rdp", "drop-rdp", "set-on-delete", "set-interleave", "set-options", "alter-column") {
	case "add-column":
		return cat(f, k("ADD COLUMN"), g.ifNotExists("alter-table.add-column"), g.columnDef())
	case "drop-column":
		return cat(f, k("DROP COLUMN"), g.name(posStrict))
	case "add-constraint":
		return cat(f, k("ADD"), g.constraint())
	case "drop-constraint":
		return cat(f, k("DROP CONSTRAINT"), g.name(posStrict))
	case "add-synonym":
		return cat(f, k("ADD SYNONYM"), g.name(posStrict))
	case "drop-synonym":
		return cat(f, k("DROP SYNONYM"), g.name(posStrict))
	case "rename-to":
		return cat(f, k("RENAME TO"), g.name(posStrict), g.opt("alter-table.rename.add-synonym", func() Frag { return cat(p(","), k("ADD SYNONYM"), g.name(posStrict)) }))
	case "add-rdp":
		return cat(f, k("ADD"), g.rowDeletionPolicy())
	case "replace-rdp":
		return cat(f, k("REPLACE"), g.rowDeletionPolicy())
	case "drop-rdp":
		return cat(f, k("DROP ROW DELETION POLICY"))
	case "set-on-delete":
		return cat(f, k("SET"), k(g.choose("alter-table.set-on-delete", "ON DELETE CASCADE", "ON DELETE NO ACTION")))
	case "set-interleave":
		return cat(f, k("SET"), g.interleaveInParent("alter-table.set-interleave"))
	case "set-options":
		return cat(f, k("SET"), g.options("alter-table"))
	}
	f = cat(f, k("ALTER COLUMN"), g.name(posStrict))
	switch g.choose("alter-column", "type", "set-default", "drop-default", "set-options", "identity-skip", "identity-no-skip", "identity-restart") {
	case "set-default":
		return cat(f, k("SET DEFAULT"), p("("), g.Expr(), p(")"))
	case "drop-default":
		return cat(f, k("DROP DEFAULT"))
	case "set-options":
		return cat(f, k("SET"), g.options("alter-column"))
	case "identity-skip":
		return cat(f, k("ALTER IDENTITY SET SKIP RANGE"), g.intLit(), p(","), g.intLit())
	case "identity-no-skip":
		return cat(f, k("ALTER IDENTITY SET NO SKIP RANGE"))
	case "identity-restart":
		return cat(f, k("ALTER IDENTITY RESTART COUNTER WITH"), g.intLit())
	}
	f = cat(f, g.schemaType())
	if g.flip("alter-column.not-null") {
		f = cat(f, k("NOT NULL"))
	}
	if g.rare("alter-column.default", 3) {
		f = cat(f, k("DEFAULT"), p("("), g.Expr(), p(")"))
	}
	return f
}

func (g *G) storing(tag string) Frag {
	if g.rare(tag+".storing", 3) {
		return cat(k("STORING"), g.identList(tag+".storing.cols", 1, 3))
	}
	return empty()
}

func (g *G) CreateIndex() Frag {
	f := k("CREATE")
	if g.rare("create-index.unique", 3) {
		f = cat(f, k("UNIQUE"))
	}
	if g.rare("create-index.null-filtered", 3) {
		f = cat(f, k("NULL_FILTERED"))
	}
	f = cat(f, k("INDEX"), g.ifNotExists("create-index"), g.path("create-index.name", 1, 2), k("ON"), g.path("create-index.table", 1, 2))
	f = cat(f, p("("), g.commaList("create-index.keys", 1, 3, func(int) Frag { return g.indexKey() }), p(")"), g.storing("create-index"))
	if g.rare("create-index.interleave", 4) {
		f = cat(f, p(","), k("INTERLEAVE IN"), g.name(posStrict))
	}
	return cat(f, g.optOptions("create-index"))
}

func (g *G) CreateSearchIndex() Frag {
	f := cat(k("CREATE SEARCH INDEX"), g.name(posStrict), k("ON"), g.name(posStrict), g.identList("search-index.columns", 1, 3), g.storing("search-index"))
	lastClauseIsList := false
	if g.rare("search-index.partition-by", 3) {
		lastClauseIsList = true
		f = cat(f, k("PARTITION BY"), g.commaList("search-index.partition.cols", 1, 3, func(int) Frag { return g.name(posStrict) }))
	}
	if g.rare("search-index.order-by", 3) {
		lastClauseIsList = true
		f = cat(f, k("ORDER BY"), g.commaList("search-index.order.items", 1, 3, func(int) Frag {
			x := g.name(posStrict)
			switch g.choose("search-index.order.dir", "none", "ASC", "DESC") {
			case "ASC":
				x = cat(x, k("ASC"))
			case "DESC":
				x = cat(x, k("DESC"))
			}
			return x
		}))
	}
	if g.rare("search-index.where", 3) {
		lastClauseIsList = false
		f = cat(f, k("WHERE"), g.Expr())
	}
	// ", INTERLEAVE IN" directly after a comma separated PARTITION BY / ORDER BY list is its own feature
	afterList := len(f.W) > 0 && lastClauseIsList
	if afterList {
		if g.rare("search-index.interleave-after-list", 4) {
			f = cat(f, p(","), k("INTERLEAVE IN"), g.name(posStrict))
		}
	} else if g.rare("search-index.interleave", 4) {
		f = cat(f, p(","), k("INTERLEAVE IN"), g.name(posStrict))
	}
	return cat(f, g.optOptions("search-index"))
}

func (g *G) changeStreamFor(tag string) Frag {
	if g.flip(tag + ".for-all") {
		return k("FOR ALL")
	}
	return cat(k("FOR"), g.commaList(tag+".for.tables", 1, 3, func(int) Frag {
		t := g.name(posStrict)
		switch g.choose(tag+".for.columns", "none", "list", "empty") {
		case "list":
			return cat(t, pl("("), g.commaList(tag+".for.cols", 1, 3, func(int) Frag { return g.name(posSafe) }), p(")"))
		case "empty":
			return cat(t, pl("("), p(")"))
		}
		return t
	}))
}

func (g *G) privilege() Frag {
	switch g.choose("privilege", "table", "table", "view", "change-stream", "table-function", "role") {
	case "view":
		return cat(k("SELECT ON VIEW"), g.commaList("privilege.names", 1, 3, func(int) Frag { return g.name(posStrict) }))
	case "change-stream":
		return cat(k("SELECT ON CHANGE STREAM"), g.commaList("privilege.names", 1, 3, func(int) Frag { return g.name(posStrict) }))
	case "table-function":
		return cat(k("EXECUTE ON TABLE FUNCTION"), g.commaList("privilege.names", 1, 3, func(int) Frag { return g.name(posStrict) }))
	case "role":
		return cat(k("ROLE"), g.commaList("privilege.names", 1, 3, func(int) Frag { return g.name(posStrict) }))
	}
	f := g.commaList("privilege.table.privs", 1, 4, func(int) Frag {
		kind := g.choose("privilege.table.priv", "SELECT", "INSERT", "UPDATE", "DELETE")
		if kind == "DELETE" {
			return k("DELETE")
		}
		if g.flip("privilege.columns") {
			return cat(k(kind), pl("("), g.commaList("privilege.cols", 1, 3, func(int) Frag { return g.name(posSafe) }), p(")"))
		}
		return k(kind)
	})
	return cat(f, k("ON TABLE"), g.commaList("privilege.names", 1, 3, func(int) Frag { return g.name(posStrict) }))
}

func (g *G) modelColumns(tag string) Frag {
	return cat(p("("), g.commaList(tag, 1, 3, func(int) Frag {
		return cat(g.name(posStrict), g.schemaType(), g.opt("model.column.options", func() Frag { return g.options("model.column") }))
	}), p(")"))
}

// ---- property graph ----

func (g *G) pgColumns(tag string) Frag { return g.identList(tag, 1, 3) }

func (g *G) pgProperties() Frag {
	switch g.choose("pg.properties", "NO", "ALL", "ARE ALL", "ALL EXCEPT", "derived") {
	case "NO":
		return k("NO PROPERTIES")
	case "ALL":
		return cat(k("PROPERTIES"), cOnly(k("ARE")), k("ALL COLUMNS"))
	case "ARE ALL":
		return k("PROPERTIES ARE ALL COLUMNS")
	case "ALL EXCEPT":
		return cat(k("PROPERTIES"), func() Frag {
			if g.flip("pg.properties.are") {
				return k("ARE")
			}
			return cOnly(k("ARE"))
		}(), k("ALL COLUMNS EXCEPT"), g.pgColumns("pg.except.cols"))
	}
	return cat(k("PROPERTIES"), p("("), g.commaList("pg.derived", 1, 3, func(int) Frag {
		return cat(g.Expr(), g.opt("pg.derived.as", func() Frag { return cat(k("AS"), g.name(posSafe)) }))
	}), p(")"))
}

func (g *G) pgElement(edge bool) Frag {
	f := g.name(posStrict)
	if g.flip("pg.element.alias") {
		f = cat(f, k("AS"), g.name(posSafe))
	}
	if g.flip("pg.element.key") {
		f = cat(f, k("KEY"), g.pgColumns("pg.key.cols"))
	}
	if edge {
		f = cat(f, k("SOURCE KEY"), g.pgColumns("pg.source.cols"), k("REFERENCES"), g.name(posStrict))
		if g.flip("pg.source.refcols") {
			f = cat(f, g.pgColumns("pg.source.refcols.n"))
		}
		f = cat(f, k("DESTINATION KEY"), g.pgColumns("pg.dest.cols"), k("REFERENCES"), g.name(posStrict))
		if g.flip("pg.dest.refcols") {
			f = cat(f, g.pgColumns("pg.dest.refcols.n"))
		}
	}
	switch g.choose("pg.element.labels", "none", "labels", "properties") {
	case "labels":
		n := g.count("pg.labels", 1, 3)
		for i := 0; i < n; i++ {
			if g.rare("pg.label.default", 3) {
				f = cat(f, k("DEFAULT LABEL"))
			} else {
				f = cat(f, k("LABEL"), g.name(posStrict))
			}
			if g.flip("pg.label.properties") {
				f = cat(f, g.pgProperties())
			}
		}
	case "properties":
		f = cat(f, g.pgProperties())
	}
	return f
}

func (g *G) CreatePropertyGraph() Frag {
	f := k("CREATE")
	if g.rare("pg.or-replace", 3) {
		f = cat(f, k("OR REPLACE"))
	}
	f = cat(f, k("PROPERTY GRAPH"), g.ifNotExists("pg"), g.name(posStrict), k("NODE TABLES"), p("("),
		g.commaList("pg.nodes", 1, 3, func(int) Frag { return g.pgElement(false) }), p(")"))
	if g.flip("pg.edges") {
		f = cat(f, k("EDGE TABLES"), p("("), g.commaList("pg.edges.n", 1, 2, func(int) Frag { return g.pgElement(true) }), p(")"))
	}
	return f
}

func (g *G) protoTypes(tag string) Frag {
	return cat(p("("), g.commaList(tag, 1, 3, func(int) Frag { return g.typePath() }), p(")"))
}

// DDL draws one DDL statement.
func (g *G) DDL() Frag {
	kind := g.choose("ddl",
		"create-schema", "drop-schema", "create-database", "alter-database", "create-locality-group", "alter-locality-group", "drop-locality-group", "create-placement",
		"create-proto-bundle", "alter-proto-bundle", "drop-proto-bundle", "create-table", "create-table", "create-table", "alter-table", "alter-table", "drop-table", "rename-table",
		"create-index", "alter-index", "drop-index", "create-search-index", "alter-search-index", "drop-search-index", "create-vector-index", "drop-vector-index",
		"create-view", "drop-view", "create-change-stream", "alter-change-stream", "drop-change-stream", "create-sequence", "alter-sequence", "drop-sequence",
		"create-role", "drop-role", "grant", "revoke", "alter-statistics", "analyze", "create-model", "alter-model", "drop-model", "create-property-graph", "drop-property-graph")
	switch kind {
	case "create-schema":
		return cat(k("CREATE SCHEMA"), g.name(posStrict))
	case "drop-schema":
		return cat(k("DROP SCHEMA"), g.name(posStrict))
	case "create-database":
		return cat(k("CREATE DATABASE"), g.name(posStrict))
	case "alter-database":
		return cat(k("ALTER DATABASE"), g.name(posStrict), k("SET"), g.options("alter-database"))
	case "create-locality-group":
		return cat(k("CREATE LOCALITY GROUP"), g.name(posStrict), g.optOptions("create-locality-group"))
	case "alter-locality-group":
		return cat(k("ALTER LOCALITY GROUP"), g.name(posStrict), k("SET"), g.options("alter-locality-group"))
	case "drop-locality-group":
		return cat(k("DROP LOCALITY GROUP"), g.name(posStrict))
	case "create-placement":
		return cat(k("CREATE PLACEMENT"), g.name(posStrict), g.options("create-placement"))
	case "create-proto-bundle":
		return cat(k("CREATE PROTO BUNDLE"), g.protoTypes("proto-bundle.types"))
	case "alter-proto-bundle":
		f := k("ALTER PROTO BUNDLE")
		if g.flip("alter-proto-bundle.insert") {
			f = cat(f, k("INSERT"), g.protoTypes("proto-bundle.insert"))
		}
		if g.flip("alter-proto-bundle.update") {
			f = cat(f, k("UPDATE"), g.protoTypes("proto-bundle.update"))
		}
		if g.flip("alter-proto-bundle.delete") {
			f = cat(f, k("DELETE"), g.protoTypes("proto-bundle.delete"))
		}
		return f
	case "drop-proto-bundle":
		return k("DROP PROTO BUNDLE")
	case "create-table":
		return g.CreateTable()
	case "alter-table":
		return g.AlterTable()
	case "drop-table":
		return cat(k("DROP TABLE"), g.ifExists("drop-table"), g.path("drop-table.name", 1, 2))
	case "rename-table":
		return cat(k("RENAME TABLE"), g.commaList("rename-table.pairs", 1, 3, func(int) Frag { return cat(g.name(posStrict), k("TO"), g.name(posStrict)) }))
	case "create-index":
		return g.CreateIndex()
	case "alter-index":
		return cat(k("ALTER INDEX"), g.path("alter-index.name", 1, 2), k(g.choose("alter-index", "ADD", "DROP")), k("STORED COLUMN"), g.name(posStrict))
	case "drop-index":
		return cat(k("DROP INDEX"), g.ifExists("drop-index"), g.path("drop-index.name", 1, 2))
	case "create-search-index":
		return g.CreateSearchIndex()
	case "alter-search-index":
		return cat(k("ALTER SEARCH INDEX"), g.name(posStrict), k(g.choose("alter-search-index", "ADD", "DROP")), k("STORED COLUMN"), g.name(posStrict))
	case "drop-search-index":
		return cat(k("DROP SEARCH INDEX"), g.ifExists("drop-search-index"), g.name(posStrict))
	case "create-vector-index":
		f := cat(k("CREATE VECTOR INDEX"), g.ifNotExists("create-vector-index"), g.name(posStrict), k("ON"), g.name(posStrict), p("("), g.name(posSafe), p(")"))
		if g.rare("create-vector-index.where", 3) {
			f = cat(f, k("WHERE"), g.Expr())
		}
		return cat(f, g.options("create-vector-index"))
	case "drop-vector-index":
		return cat(k("DROP VECTOR INDEX"), g.ifExists("drop-vector-index"), g.name(posStrict))
	case "create-view":
		f := k("CREATE")
		if g.rare("create-view.or-replace", 3) {
			f = cat(f, k("OR REPLACE"))
		}
		return cat(f, k("VIEW"), g.path("create-view.name", 1, 2), k("SQL SECURITY"), k(g.choose("create-view.security", "INVOKER", "DEFINER")), k("AS"), g.query(false))
	case "drop-view":
		return cat(k("DROP VIEW"), g.path("drop-view.name", 1, 2))
	case "create-change-stream":
		f := cat(k("CREATE CHANGE STREAM"), g.name(posStrict))
		if g.flip("create-change-stream.for") {
			f = cat(f, g.changeStreamFor("create-change-stream"))
		}
		return cat(f, g.optOptions("create-change-stream"))
	case "alter-change-stream":
		f := cat(k("ALTER CHANGE STREAM"), g.name(posStrict))
		switch g.choose("alter-change-stream", "set-for", "drop-for-all", "set-options") {
		case "set-for":
			return cat(f, k("SET"), g.changeStreamFor("alter-change-stream"))
		case "drop-for-all":
			return cat(f, k("DROP FOR ALL"))
		}
		return cat(f, k("SET"), g.options("alter-change-stream"))
	case "drop-change-stream":
		return cat(k("DROP CHANGE STREAM"), g.name(posStrict))
	case "create-sequence":
		return cat(k("CREATE SEQUENCE"), g.ifNotExists("create-sequence"), g.path("create-sequence.name", 1, 2), g.seqParams("create-sequence.params", 0), g.optOptions("create-sequence"))
	case "alter-sequence":
		f := cat(k("ALTER SEQUENCE"), g.path("alter-sequence.name", 1, 2))
		if g.Relaxed && g.flip("alter-sequence.relaxed-multi") {
			// several clauses in one statement, in any order
			n := g.count("alter-sequence.relaxed.n", 2, 3)
			for i := 0; i < n; i++ {
				switch g.choose("alter-sequence.relaxed", "set-options", "skip-range", "no-skip-range", "restart") {
				case "skip-range":
					f = cat(f, k("SKIP RANGE"), g.intLit(), p(","), g.intLit())
				case "no-skip-range":
					f = cat(f, k("NO SKIP RANGE"))
				case "restart":
					f = cat(f, k("RESTART COUNTER WITH"), g.intLit())
				default:
					f = cat(f, k("SET"), g.options("alter-sequence"))
				}
			}
			return f
		}
		switch g.choose("alter-sequence", "set-options", "skip-range", "no-skip-range", "restart") {
		case "skip-range":
			return cat(f, k("SKIP RANGE"), g.intLit(), p(","), g.intLit())
		case "no-skip-range":
			return cat(f, k("NO SKIP RANGE"))
		case "restart":
			return cat(f, k("RESTART COUNTER WITH"), g.intLit())
		}
		return cat(f, k("SET"), g.options("alter-sequence"))
	case "drop-sequence":
		return cat(k("DROP SEQUENCE"), g.ifExists("drop-sequence"), g.path("drop-sequence.name", 1, 2))
	case "create-role":
		return cat(k("CREATE ROLE"), g.name(posStrict))
	case "drop-role":
		return cat(k("DROP ROLE"), g.name(posStrict))
	case "grant":
		return cat(k("GRANT"), g.privilege(), k("TO ROLE"), g.commaList("grant.roles", 1, 3, func(int) Frag { return g.name(posStrict) }))
	case "revoke":
		return cat(k("REVOKE"), g.privilege(), k("FROM ROLE"), g.commaList("revoke.roles", 1, 3, func(int) Frag { return g.name(posStrict) }))
	case "alter-statistics":
		return cat(k("ALTER STATISTICS"), g.name(posStrict), k("SET"), g.options("alter-statistics"))
	case "analyze":
		return k("ANALYZE")
	case "create-model":
		f := k("CREATE")
		if g.rare("create-model.or-replace", 3) {
			f = cat(f, k("OR REPLACE"))
		}
		f = cat(f, k("MODEL"), g.ifNotExists("create-model"), g.name(posStrict))
		if g.flip("create-model.input-output") {
			f = cat(f, k("INPUT"), g.modelColumns("create-model.input"), k("OUTPUT"), g.modelColumns("create-model.output"))
		}
		return cat(f, k("REMOTE"), g.optOptions("create-model"))
	case "alter-model":
		return cat(k("ALTER MODEL"), g.ifExists("alter-model"), g.name(posStrict), k("SET"), g.options("alter-model"))
	case "drop-model":
		return cat(k("DROP MODEL"), g.ifExists("drop-model"), g.name(posStrict))
	case "create-property-graph":
		return g.CreatePropertyGraph()
	}
	return cat(k("DROP PROPERTY GRAPH"), g.ifExists("drop-property-graph"), g.name(posStrict))
}

// ---- sentences ----

// Sentence draws a complete input of the given kind ("" = any).
func Draw(g *G, kind string) Sentence {
	if kind == "" {
		kind = []string{"query", "query", "query", "expr", "expr", "type", "dml", "dml", "ddl", "ddl", "ddl", "call"}[g.pick("sentence.kind", 12)]
	}
	var f Frag
	switch kind {
	case "query":
		f = g.QueryStatement()
	case "expr":
		f = g.Expr()
	case "type":
		f = g.Type()
	case "dml":
		switch g.choose("dml", "insert", "delete", "update") {
		case "insert":
			f = g.Insert()
		case "delete":
			f = g.Delete()
		default:
			f = g.Update()
		}
	case "ddl":
		f = g.DDL()
	case "call":
		f = g.Call()
	}
	return Sentence{Kind: kind, W: f.W, C: f.C, Tags: g.TagList(), Avoided: g.Avoided}
}
