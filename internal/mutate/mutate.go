// Package mutate produces inputs with errors: token-level mutants of valid
// sentences, truncations, hostile lexical fragments and byte soups. Every
// random choice is a rapid draw so failures shrink and replay.
package mutate

import (
	"strings"

	"pgregory.net/rapid"

	"verif/internal/reflex"
)

// Hostile lexical fragments (each is, or starts, a lexically malformed or
// boundary-case token).
var Hostile = []string{
	"1a", "0x", "0xg", "'abc", "\"abc", "'''x", "\"\"\"x", "``", "`", "`a", "\"\\x", "\"\\x4", "\"\\0", "'\\12", "\"\\u12",
	"\"\\U0000", "b'\\u0041'", "/*", "/*/", "\x00", "\xff", "\xc3", "\xe3\x81", "@", "$", "\\", "'\n'", "1e", "1.e", "..", ".",
	"'\\", "r'\\", "b\"\\", "`\\", "?", "!", "@@", "#", "--", "//", "{", "}", "|>", "->", "=>", "+=", "-=", ">>", "<>",
	"1.5.2", "1e+", "0X", "'\\400'", "\"\\ud800\"", "\"\\U00110000\"", "`\\x41`", "'\\e'",
	// truncated multi-byte sequences at the end of a literal / identifier (written as escapes and raw)
	"'a\\xef\\xbf'", "\"\\xEF\\277\"", "`k\\xef\\xbf`", "'\\xf0\\x9f\\x98'", "'\\xe2\\x82'", "'\\xc3'", "'\xef\xbf'", "`\xe3\x81`", "b'\\xef\\xbf'",
}

// Punct is the punctuation vocabulary.
var Punct = []string{"(", ")", "[", "]", "{", "}", "<", ">", ">>", "<<", "<>", "<=", ">=", "!=", "=", ",", ";", ".", "*", "/", "+", "-",
	"~", "&", "^", "|", "||", "|>", "@", ":", "=>", "->"}

// Words is a vocabulary of keywords, pseudo keywords and sample operands.
var Words = func() []string {
	w := append([]string{}, reflex.ReservedWords()...)
	// sort for determinism (map order!)
	for i := 1; i < len(w); i++ {
		for j := i; j > 0 && w[j] < w[j-1]; j-- {
			w[j], w[j-1] = w[j-1], w[j]
		}
	}
	w = append(w, "INSERT", "UPDATE", "DELETE", "TABLE", "INDEX", "OPTIONS", "VALUES", "ALTER", "DROP", "ADD", "COLUMN", "KEY",
		"PRIMARY", "OFFSET", "SAFE_CAST", "INT64", "STRING", "MAX", "a", "b", "t", "x", "f", "1", "2.5", "'s'", "b'z'", "@p",
		"TRUE", "NULL", "COUNT", "DATE", "CALL", "RETURN", "ACTION", "REPLACE", "VIEW", "SQL", "SECURITY", "INVOKER", "MODEL",
		"SEQUENCE", "CHANGE", "STREAM", "ROLE", "GRANT", "REVOKE", "SEARCH", "VECTOR", "PROPERTY", "GRAPH", "LABEL", "NODE", "TABLES")
	return w
}()

// Piece is a token with the trivia that preceded it.
type Piece struct {
	Lead string // whitespace and comments before the token
	Raw  string
}

// Split tokenises src with the reference lexer; when src does not lex it is
// split at whitespace instead.
func Split(src string) []Piece {
	toks, err := reflex.Lex(src)
	if err == nil {
		var out []Piece
		for _, t := range toks {
			lead := ""
			for _, c := range t.Comments {
				lead += c.Space + c.Raw
			}
			lead += t.Space
			if t.Kind == reflex.EOF {
				if lead != "" {
					out = append(out, Piece{Lead: lead})
				}
				break
			}
			out = append(out, Piece{Lead: lead, Raw: t.Raw})
		}
		return out
	}
	var out []Piece
	for _, f := range strings.Fields(src) {
		out = append(out, Piece{Lead: " ", Raw: f})
	}
	return out
}

func Join(ps []Piece) string {
	var b strings.Builder
	for _, p := range ps {
		b.WriteString(p.Lead)
		b.WriteString(p.Raw)
	}
	return b.String()
}

func vocab(t *rapid.T, label string) string {
	switch rapid.IntRange(0, 9).Draw(t, label+".class") {
	case 0, 1, 2:
		return rapid.SampledFrom(Punct).Draw(t, label+".punct")
	case 3:
		return rapid.SampledFrom(Hostile).Draw(t, label+".hostile")
	default:
		return rapid.SampledFrom(Words).Draw(t, label+".word")
	}
}

// Tokens applies 1..n token-level edits to src.
func Tokens(t *rapid.T, src string, maxEdits int) string {
	ps := Split(src)
	n := rapid.IntRange(1, maxEdits).Draw(t, "edits")
	for e := 0; e < n; e++ {
		if len(ps) == 0 {
			ps = append(ps, Piece{Raw: vocab(t, "ins")})
			continue
		}
		i := rapid.IntRange(0, len(ps)-1).Draw(t, "at")
		switch rapid.IntRange(0, 6).Draw(t, "op") {
		case 6: // permute / repeat / drop a comma-separated or keyword-introduced clause
			ps = Split(Segments(t, Join(ps)))
		case 0: // delete
			ps = append(ps[:i:i], ps[i+1:]...)
		case 1: // duplicate
			ps = append(ps[:i+1:i+1], ps[i:]...)
			ps[i+1].Lead = " "
		case 2: // swap neighbours
			if i+1 < len(ps) {
				ps[i].Raw, ps[i+1].Raw = ps[i+1].Raw, ps[i].Raw
			}
		case 3: // replace
			ps[i].Raw = vocab(t, "rep")
		case 4: // insert before
			ins := Piece{Lead: ps[i].Lead, Raw: vocab(t, "ins")}
			rest := append([]Piece{ins}, ps[i:]...)
			rest[1].Lead = " "
			if rapid.IntRange(0, 7).Draw(t, "glue") == 0 {
				rest[1].Lead = ""
			}
			ps = append(ps[:i:i], rest...)
		case 5: // drop everything from i (token-level truncation)
			ps = ps[:i]
		}
	}
	return Join(ps)
}

// DropAll removes every occurrence of one drawn token spelling (all commas, all ')' ...): one long run of
// tokens without its separators typically becomes a single large Bad node.
func DropAll(t *rapid.T, src string) string {
	ps := Split(src)
	if len(ps) == 0 {
		return src
	}
	victim := rapid.SampledFrom([]string{",", ",", ")", "(", "=", "AS", ".", "]"}).Draw(t, "dropall")
	var out []Piece
	for _, p := range ps {
		if strings.EqualFold(p.Raw, victim) {
			out = append(out, Piece{Lead: " "})
			continue
		}
		out = append(out, p)
	}
	return Join(out)
}

// Repeat builds a long input out of n copies of a (usually broken) fragment joined by a separator,
// optionally inside brackets: many independent recoveries in one parse.
func Repeat(t *rapid.T, frag string, maxN int) string {
	n := rapid.IntRange(2, maxN).Draw(t, "repeat.n")
	form := rapid.SampledFrom([]string{";", ";\n", "[,]", "(,)", "f(,)", "SELECT ,", "IN(,)", "{,}"}).Draw(t, "repeat.form")
	var b strings.Builder
	open, sep, close := "", ";", ""
	switch form {
	case ";\n":
		sep = ";\n"
	case "[,]":
		open, sep, close = "[", ", ", "]"
	case "(,)":
		open, sep, close = "(", ", ", ")"
	case "f(,)":
		open, sep, close = "f(", ", ", ")"
	case "SELECT ,":
		open, sep, close = "SELECT ", ", ", " FROM t"
	case "IN(,)":
		open, sep, close = "x IN (", ", ", ")"
	case "{,}":
		open, sep, close = "NEW T {", ", ", "}"
	}
	b.WriteString(open)
	for i := 0; i < n; i++ {
		if i > 0 {
			b.WriteString(sep)
		}
		b.WriteString(frag)
	}
	b.WriteString(close)
	return b.String()
}

// Segments permutes or repeats the comma-separated clauses of a sentence: the token list is cut at the commas of one
// bracket depth (0 or 1), and two segments are swapped, one is duplicated, moved to the end, or dropped. Trailing
// clauses that must come in a fixed order (", INTERLEAVE IN ...", ", ROW DELETION POLICY (...)", INSERT / UPDATE / DELETE
// lists of ALTER PROTO BUNDLE ...) are what this reaches and token-level edits do not. It also swaps two adjacent
// keyword-introduced clauses when there is no comma to cut at.
func Segments(t *rapid.T, src string) string {
	ps := Split(src)
	if len(ps) < 3 {
		return src
	}
	level := rapid.IntRange(0, 1).Draw(t, "seg.level")
	type seg struct{ from, to int } // token range [from, to), without the separating comma
	var segs []seg
	depth, start := 0, 0
	first := -1
	for i, p := range ps {
		switch p.Raw {
		case "(", "[", "{":
			depth++
		case ")", "]", "}":
			depth--
		}
		if first < 0 && depth == level {
			first, start = i, i
			if level == 1 {
				start = i + 1
			}
		}
		if p.Raw == "," && depth == level && first >= 0 {
			segs = append(segs, seg{start, i})
			start = i + 1
		}
		if level == 1 && depth == 0 && first >= 0 && i > first {
			segs = append(segs, seg{start, i}) // closing bracket ends the list
			break
		}
	}
	if level == 0 {
		segs = append(segs, seg{start, len(ps)})
	}
	if len(segs) < 2 {
		// no comma list at that level: swap two adjacent keyword-introduced clauses instead
		var kw []int
		for i, p := range ps {
			if i > 0 && clauseWords[strings.ToUpper(p.Raw)] {
				kw = append(kw, i)
			}
		}
		if len(kw) < 2 {
			return src
		}
		kw = append(kw, len(ps)) // the last clause runs to the end
		k := rapid.IntRange(0, len(kw)-3).Draw(t, "seg.kw")
		a, b, c := kw[k], kw[k+1], kw[k+2]
		out := append([]Piece{}, ps[:a]...)
		out = append(out, ps[b:c]...)
		out = append(out, ps[a:b]...)
		out = append(out, ps[c:]...)
		return Join(out)
	}
	i := rapid.IntRange(0, len(segs)-1).Draw(t, "seg.i")
	j := rapid.IntRange(0, len(segs)-1).Draw(t, "seg.j")
	get := func(s seg) []Piece { return append([]Piece{}, ps[s.from:s.to]...) }
	order := make([][]Piece, len(segs))
	for k, s := range segs {
		order[k] = get(s)
	}
	switch rapid.IntRange(0, 3).Draw(t, "seg.op") {
	case 0: // swap
		order[i], order[j] = order[j], order[i]
	case 1: // duplicate i after j
		dup := get(segs[i])
		order = append(order[:j+1:j+1], append([][]Piece{dup}, order[j+1:]...)...)
	case 2: // move i to the end
		m := order[i]
		order = append(order[:i:i], order[i+1:]...)
		order = append(order, m)
	default: // drop i
		order = append(order[:i:i], order[i+1:]...)
	}
	out := append([]Piece{}, ps[:segs[0].from]...)
	for k, o := range order {
		if k > 0 {
			out = append(out, Piece{Raw: ","})
		}
		if len(o) > 0 && o[0].Lead == "" {
			o[0].Lead = " "
		}
		out = append(out, o...)
	}
	out = append(out, ps[segs[len(segs)-1].to:]...)
	return Join(out)
}

// clauseWords start a clause in some statement (any letter case).
var clauseWords = func() map[string]bool {
	m := map[string]bool{}
	for _, w := range strings.Fields(`INSERT UPDATE DELETE SET ADD DROP ALTER WHERE GROUP ORDER HAVING LIMIT OFFSET FROM OPTIONS STORING INTERLEAVE PARTITION FOR ON USING
WITH THEN DEFAULT HIDDEN STORED PRIMARY REFERENCES ENFORCED CHECK CONSTRAINT FOREIGN ROW SQL AS SKIP RESTART START BIT_REVERSED_POSITIVE NO INPUT OUTPUT REMOTE
NODE EDGE LABEL PROPERTIES KEY SOURCE DESTINATION TABLESAMPLE JOIN UNION INTERSECT EXCEPT SELECT RETURN ASSERT_ROWS_MODIFIED IF CASCADE TO GRANT REVOKE WINDOW QUALIFY`) {
		m[w] = true
	}
	return m
}()

// Truncate cuts src at a drawn byte offset.
func Truncate(t *rapid.T, src string) string {
	if len(src) == 0 {
		return src
	}
	return src[:rapid.IntRange(0, len(src)-1).Draw(t, "cut")]
}

// Inject places a hostile fragment at the start, after a ';', in the middle or at the end.
func Inject(t *rapid.T, src string) string {
	h := rapid.SampledFrom(Hostile).Draw(t, "hostile")
	sep := rapid.SampledFrom([]string{"", " ", "\n"}).Draw(t, "sep")
	switch rapid.IntRange(0, 4).Draw(t, "where") {
	case 0:
		return h + sep + src
	case 1:
		return src + sep + h
	case 2:
		return src + ";" + sep + h
	case 3:
		return h + sep + ";" + src
	default:
		ps := Split(src)
		if len(ps) == 0 {
			return h
		}
		i := rapid.IntRange(0, len(ps)-1).Draw(t, "at")
		ps[i].Lead += h + sep
		return Join(ps)
	}
}

var soupAlphabet = func() []string {
	var a []string
	for _, s := range []string{"a", "b", "r", "e", "x", "0", "1", "9", ".", "'", "\"", "`", "\\", "\n", " ", "-", "/", "*", "#", "<", ">", "=",
		"@", ";", "(", ")", "[", "]", "{", "}", ",", "+", "|", "&", "^", "~", "!", "?", "$", ":", "%", "_", "\t", "\r", "u", "U", "n", "7", "f", "F", "E"} {
		a = append(a, s, s) // lexical alphabet twice as likely
	}
	for _, w := range []string{"SELECT", "FROM", "WHERE", "(", ")", "CASE", "WHEN", "END", "ARRAY<", "STRUCT<", ">>", "AS", "1", "x", ",", ";",
		"CREATE", "TABLE", "INSERT", "INTO", "NOT", "IN", "AND", "BETWEEN", "IS", "NULL", "UNION", "ALL", "JOIN", "ON", "@{", "}", "'''", "\"\"\""} {
		a = append(a, w+" ")
	}
	for i := 0; i < 256; i++ {
		a = append(a, string([]byte{byte(i)}))
	}
	a = append(a, "é", "日", "\u00a0", "\u2028", "\u3000", "\ufeff")
	return a
}()

// Soup draws a byte soup over all 256 byte values, weighted towards the lexical alphabet.
func Soup(t *rapid.T, maxParts int) string {
	n := rapid.IntRange(0, maxParts).Draw(t, "parts")
	var b strings.Builder
	for i := 0; i < n; i++ {
		b.WriteString(rapid.SampledFrom(soupAlphabet).Draw(t, "part"))
	}
	return b.String()
}

// Nesting builds deep nesting probes.
func Nesting(t *rapid.T, maxDepth int) string {
	open := rapid.SampledFrom([]string{"(", "ARRAY<", "CASE WHEN ", "(SELECT ", "NOT ", "[", "STRUCT<", "- ", "a.", "f(", "{a: ", "IF(", "SELECT (", "(SELECT * FROM (", "CAST("}).Draw(t, "open")
	k := rapid.IntRange(1, maxDepth).Draw(t, "depth")
	tail := rapid.SampledFrom([]string{"", "1", "x", ")", ">", " END", "]"}).Draw(t, "tail")
	closeN := rapid.IntRange(0, k).Draw(t, "closeN")
	return strings.Repeat(open, k) + "1" + strings.Repeat(tail, closeN)
}
