// Package exprmodel is the operator-tree model of GoogleSQL expressions used by
// C07: the documented precedence table as data, a minimal / full parenthesising
// printer (mine, not memefish's) and an enumerator of all trees with a given
// number of operator occurrences.
package exprmodel

import (
	"strings"
)

// Form is one operator form.
type Form struct {
	Name  string // unique name, e.g. "+", "u-", "IS NOT NULL", "BETWEEN", "IN2"
	Kind  string // bin, prefix, is, between, in, inunnest, field, index
	Text  string // operator token text (bin / prefix / is)
	Level int    // documented precedence level (1 tightest)
	Arity int    // number of operand sub-expressions
	Not   bool
}

var Forms []Form

func init() {
	add := func(f Form) { Forms = append(Forms, f) }
	for _, op := range []string{"*", "/", "||"} {
		add(Form{Name: op, Kind: "bin", Text: op, Level: 3, Arity: 2})
	}
	for _, op := range []string{"+", "-"} {
		add(Form{Name: op, Kind: "bin", Text: op, Level: 4, Arity: 2})
	}
	for _, op := range []string{"<<", ">>"} {
		add(Form{Name: op, Kind: "bin", Text: op, Level: 5, Arity: 2})
	}
	add(Form{Name: "&", Kind: "bin", Text: "&", Level: 6, Arity: 2})
	add(Form{Name: "^", Kind: "bin", Text: "^", Level: 7, Arity: 2})
	add(Form{Name: "|", Kind: "bin", Text: "|", Level: 8, Arity: 2})
	for _, op := range []string{"=", "!=", "<>", "<", "<=", ">", ">=", "LIKE", "NOT LIKE"} {
		add(Form{Name: op, Kind: "bin", Text: op, Level: 9, Arity: 2})
	}
	add(Form{Name: "AND", Kind: "bin", Text: "AND", Level: 11, Arity: 2})
	add(Form{Name: "OR", Kind: "bin", Text: "OR", Level: 12, Arity: 2})
	for _, op := range []string{"+", "-", "~"} {
		add(Form{Name: "u" + op, Kind: "prefix", Text: op, Level: 2, Arity: 1})
	}
	add(Form{Name: "NOT", Kind: "prefix", Text: "NOT", Level: 10, Arity: 1})
	for _, s := range []string{"IS NULL", "IS NOT NULL", "IS TRUE", "IS NOT TRUE", "IS FALSE", "IS NOT FALSE"} {
		add(Form{Name: s, Kind: "is", Text: s, Level: 9, Arity: 1, Not: strings.Contains(s, "NOT")})
	}
	add(Form{Name: "BETWEEN", Kind: "between", Level: 9, Arity: 3})
	add(Form{Name: "NOT BETWEEN", Kind: "between", Level: 9, Arity: 3, Not: true})
	add(Form{Name: "IN1", Kind: "in", Level: 9, Arity: 2})
	add(Form{Name: "NOT IN1", Kind: "in", Level: 9, Arity: 2, Not: true})
	add(Form{Name: "IN2", Kind: "in", Level: 9, Arity: 3})
	add(Form{Name: "NOT IN2", Kind: "in", Level: 9, Arity: 3, Not: true})
	add(Form{Name: "IN UNNEST", Kind: "inunnest", Level: 9, Arity: 2})
	add(Form{Name: "NOT IN UNNEST", Kind: "inunnest", Level: 9, Arity: 2, Not: true})
	add(Form{Name: ".f", Kind: "field", Level: 1, Arity: 1})
	add(Form{Name: "[]", Kind: "index", Level: 1, Arity: 2})
}

// ComparisonFamily lists the level-9 forms.
func ComparisonFamily() []*Form {
	var out []*Form
	for i := range Forms {
		if Forms[i].Level == 9 {
			out = append(out, &Forms[i])
		}
	}
	return out
}

// Node is an operator tree. Atom != "" for leaves. Paren marks an explicit
// parenthesis around the node (in expected / observed ASTs).
type Node struct {
	Form  *Form
	Kids  []*Node
	Atom  string
	Paren bool
}

var Atoms = []string{"a", "@p", "f ( x )", "1", "b", "1.5", "c"}

// Level of a node for the printing rule (atoms are 0).
func (n *Node) Level() int {
	if n.Form == nil {
		return 0
	}
	return n.Form.Level
}

// slot returns the loosest level operand i of form f accepts without parentheses.
func slot(f *Form, i int) int {
	switch f.Kind {
	case "bin":
		if f.Level == 9 {
			return 8
		}
		if i == 0 {
			return f.Level
		}
		return f.Level - 1
	case "prefix":
		return f.Level
	case "is":
		return 8
	case "between":
		return 8
	case "in", "inunnest":
		if i == 0 {
			return 8
		}
		return 99 // delimited by parentheses
	case "field":
		return 1
	case "index":
		if i == 0 {
			return 1
		}
		return 99
	}
	return 0
}

// Print renders the tree with single blanks between tokens. With full=false an
// operand is parenthesised iff the documented table requires it; with full=true
// every operator-node operand is parenthesised. The returned tree is the
// expected AST: a copy of n with Paren set exactly where parentheses were written.
func Print(n *Node, full bool) (string, *Node) {
	var b strings.Builder
	exp := print1(&b, n, full)
	return strings.TrimSpace(b.String()), exp
}

func w(b *strings.Builder, s string) {
	b.WriteString(s)
	b.WriteString(" ")
}

func print1(b *strings.Builder, n *Node, full bool) *Node {
	if n.Form == nil {
		w(b, n.Atom)
		return &Node{Atom: n.Atom}
	}
	f := n.Form
	exp := &Node{Form: f, Kids: make([]*Node, len(n.Kids))}
	operand := func(i int) {
		k := n.Kids[i]
		need := k.Level() > slot(f, i)
		if full && k.Form != nil {
			need = true
		}
		if need {
			w(b, "(")
			e := print1(b, k, full)
			w(b, ")")
			e.Paren = true
			exp.Kids[i] = e
		} else {
			exp.Kids[i] = print1(b, k, full)
		}
	}
	switch f.Kind {
	case "bin":
		operand(0)
		w(b, f.Text)
		operand(1)
	case "prefix":
		w(b, f.Text)
		operand(0)
	case "is":
		operand(0)
		w(b, f.Text)
	case "between":
		operand(0)
		if f.Not {
			w(b, "NOT")
		}
		w(b, "BETWEEN")
		operand(1)
		w(b, "AND")
		operand(2)
	case "in":
		operand(0)
		if f.Not {
			w(b, "NOT")
		}
		w(b, "IN")
		w(b, "(")
		for i := 1; i < len(n.Kids); i++ {
			if i > 1 {
				w(b, ",")
			}
			operand(i)
		}
		w(b, ")")
	case "inunnest":
		operand(0)
		if f.Not {
			w(b, "NOT")
		}
		w(b, "IN")
		w(b, "UNNEST")
		w(b, "(")
		operand(1)
		w(b, ")")
	case "field":
		operand(0)
		w(b, ".")
		w(b, "fld")
	case "index":
		operand(0)
		w(b, "[")
		operand(1)
		w(b, "]")
	}
	return exp
}

// String renders a model tree structurally (for comparison and messages).
func (n *Node) String() string {
	if n == nil {
		return "<nil>"
	}
	var s string
	if n.Form == nil {
		s = n.Atom
	} else {
		name := n.Form.Name
		if name == "<>" {
			name = "!="
		}
		parts := []string{name}
		for _, k := range n.Kids {
			parts = append(parts, k.String())
		}
		s = "[" + strings.Join(parts, " ") + "]"
	}
	if n.Paren {
		return "(" + s + ")"
	}
	return s
}

// Ops counts operator occurrences.
func (n *Node) Ops() int {
	if n.Form == nil {
		return 0
	}
	c := 1
	for _, k := range n.Kids {
		c += k.Ops()
	}
	return c
}

// Enumerate calls f for every tree shape with exactly k operator occurrences
// (each operand an atom or a sub-tree). Atoms are assigned round-robin from
// Atoms in left-to-right order, so every enumerated tree is distinct by shape.
// f returning false stops the enumeration.
func Enumerate(k int, f func(n *Node) bool) {
	EnumerateRot(k, func(int64) []int { return []int{0} }, f)
}

// EnumerateRot is Enumerate with the round-robin atom assignment started at each of the offsets
// rots(shape index) returns, so that every leaf position sees different atom kinds.
func EnumerateRot(k int, rots func(shape int64) []int, f func(n *Node) bool) {
	var shape int64
	gen(k, func(n *Node) bool {
		shape++
		for _, r := range rots(shape) {
			i := r
			c := clone(n)
			assignAtoms(c, &i)
			if !f(c) {
				return false
			}
		}
		return true
	})
}

func assignAtoms(n *Node, i *int) {
	if n.Form == nil {
		n.Atom = Atoms[*i%len(Atoms)]
		*i++
		return
	}
	for _, k := range n.Kids {
		assignAtoms(k, i)
	}
}

// gen yields all trees with exactly k operators; leaves are fresh atom nodes.
func gen(k int, yield func(n *Node) bool) bool {
	if k == 0 {
		return yield(&Node{})
	}
	for i := range Forms {
		f := &Forms[i]
		kids := make([]*Node, f.Arity)
		if !distribute(k-1, f.Arity, 0, kids, func() bool {
			cp := make([]*Node, len(kids))
			for j, c := range kids {
				cp[j] = clone(c)
			}
			return yield(&Node{Form: f, Kids: cp})
		}) {
			return false
		}
	}
	return true
}

// distribute splits `ops` operators over the operands from index `at`.
func distribute(ops, arity, at int, kids []*Node, done func() bool) bool {
	if at == arity-1 {
		return gen(ops, func(n *Node) bool {
			kids[at] = n
			return done()
		})
	}
	for here := 0; here <= ops; here++ {
		if !gen(here, func(n *Node) bool {
			kids[at] = n
			return distribute(ops-here, arity, at+1, kids, done)
		}) {
			return false
		}
	}
	return true
}

func clone(n *Node) *Node {
	c := &Node{Form: n.Form, Atom: n.Atom, Paren: n.Paren}
	for _, k := range n.Kids {
		c.Kids = append(c.Kids, clone(k))
	}
	return c
}

// Count returns the number of tree shapes with exactly k operators.
func Count(k int) int64 {
	memo := map[int]int64{}
	var t func(k int) int64
	var dist func(ops, arity int) int64
	t = func(k int) int64 {
		if k == 0 {
			return 1
		}
		if v, ok := memo[k]; ok {
			return v
		}
		var s int64
		for i := range Forms {
			s += dist(k-1, Forms[i].Arity)
		}
		memo[k] = s
		return s
	}
	dist = func(ops, arity int) int64 {
		if arity == 1 {
			return t(ops)
		}
		var s int64
		for h := 0; h <= ops; h++ {
			s += t(h) * dist(ops-h, arity-1)
		}
		return s
	}
	return t(k)
}
