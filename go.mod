module verif

go 1.23.0

require (
	github.com/cloudspannerecosystem/memefish v0.0.0
	pgregory.net/rapid v1.3.0
)

replace github.com/cloudspannerecosystem/memefish => /repo
